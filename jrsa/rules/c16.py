"""C16 — params decoding: the error-discipline part (only this part is static)."""
import re

from .common import (fkey, where, short, arg_is_local, follow_value, block_line, TYPES)
from ..facts import op_place, op_const, AnchorLost, is_test_body
from .. import flow
from ..interp import Interp, Enum, Sym, Ref, Struct, Unsupported, deref

PID = "C16"
LEVEL = "other"
EXPLANATION = (
    'The bulk of this property (agreement with a full JSON parse for every text, offsets, whitespace, panic-freedom '
    'of the string slicing) is value-level and out of reach of static analysis; it is OWN Params::into_owned is '
    'field-wise identity (what async handlers get is the text that was received); NEXT ParamsSequence::next::<T> '
    'reads the element as T through next_inner::<T>. NOT decided. Decided, for every path of the decoding functions: '
    'R1 every error produced by Params::{parse,one} and ParamsSequence::{next,optional_next,next_inner} is built by '
    'invalid_params(..), whose code is ErrorCode::InvalidParams (-32602): no other error constructor and no '
    'unwrap/expect/panic on the decoded input in these functions; R2 (poison-on-error) on the parse-failure arm and '
    'on the end-of-array arm of next_inner the remaining input is set to the empty string before returning, so later '
    'reads cannot yield an element from a wrong position; on success the remaining input is the text after the '
    'consumed value; R3 exhaustion maps to Ok(None) in optional_next and to an error in next (decision table); R4 '
    'absent params are read as `null` by parse and as the empty sequence by sequence().'
)
RULE_TEXT = "instances = error construction sites, poison assignments per failure arm, rows of the exhaustion table, substitution constants"
TRUSTED = ["rustc MIR", "serde_json StreamDeserializer::byte_offset"]
ASSUMPTIONS = ["params text reaching these functions was produced by serde_json's RawValue (is valid JSON)"]

FNS = {
    "parse": r"^jsonrpsee_types::params::Params::<'a>::parse$",
    "one": r"^jsonrpsee_types::params::Params::<'a>::one$",
    "next_inner": r"^jsonrpsee_types::params::ParamsSequence::<'a>::next_inner$",
    "next": r"^jsonrpsee_types::params::ParamsSequence::<'a>::next$",
    "optional_next": r"^jsonrpsee_types::params::ParamsSequence::<'a>::optional_next$",
}


def r1_only_invalid_params(ctx):
    F, R = ctx.F, ctx.R
    tr = ctx.tracer(follow_callers=False, follow_fields=False)
    n = 0
    for name, pat in FNS.items():
        b = F.one(pat)
        R.fn(b)
        k_ = 0
        for x in F.nested(b):
            for bi, blk in enumerate(x.blocks):
                if blk.get("cleanup") or bi not in x.reachable:
                    continue
                for st in blk["st"]:
                    if st["s"] == "assign" and st["rv"]["k"] == "agg" and st["rv"].get("variant") == "Err" and st["rv"]["adt"].startswith("std::result::Result"):
                        n += 1
                        k_ += 1
                        lv = tr.origins(x, st["rv"]["ops"][0])
                        # `opt?` yields None: an Option-level residual is not a value that can sit inside an Err
                        lv0 = lv
                        lv = [l for l in lv if not (l.kind == "call" and re.search(r"option::Option<.*> as std::ops::FromResidual.*>::from_residual$", l.detail["callee"] or ""))]
                        if lv0 and not lv:
                            continue   # nothing but Option residuals is traceable: no error value originates here
                        ok = bool(lv) and all(l.kind == "call" and re.search(r"params::invalid_params$", l.detail["callee"] or "") for l in lv)
                        R.check(ok, "C16.R1", "%s:err#%d" % (name, k_), "%s builds its error with invalid_params" % name, "%s builds an error that is not invalid_params(..): %s" % (name, [flow.leaf_str(l) for l in lv]), "%s:%d" % (x.file, st["sp"][0]))
            for c in x.calls_to(r"Result::<.*>::map_err$|Option::<.*>::ok_or_else$"):
                n += 1
                k_ += 1
                k = op_const(c.args[1])
                ok = k is not None and k.get("fn", "").endswith("params::invalid_params")
                if not ok:
                    # a closure: its body must build the error with invalid_params
                    lv = tr.origins(x, c.args[1])
                    cl = [F.bodies.get(l.detail.get("def")) for l in lv if l.kind == "closure"]
                    def _only_invalid_params(y):
                        if y is None:
                            return False
                        rl = tr.origins(y, {"cp": {"l": 0}})
                        return bool(rl) and all(l2.kind == "call" and re.search(r"params::invalid_params$", l2.detail.get("callee") or "") for l2 in rl)
                    ok = bool(cl) and all(_only_invalid_params(y) for y in cl)
                R.check(ok, "C16.R1", "%s:map_err#%d" % (name, k_), "%s maps the serde error through invalid_params" % name, "%s maps a decode error through %s" % (name, k.get("fn") if k else "a closure that does not call invalid_params"), where(c))
        bad = [c for c in b.calls if re.search(r"::(unwrap|expect|unwrap_unchecked)$|^core::panicking::|^std::rt::begin_panic", c.name() or "") and not c.exp]
        R.check(not bad, "C16.R1", "%s:no-unwrap" % name, "%s has no unwrap/expect/panic" % name, "%s can panic on the decoded input (%s)" % (name, [short(c.name()) for c in bad]), where(bad[0]) if bad else None)
        other_err = [c for x in F.nested(b) for c in x.calls if re.search(r"ErrorObject::<'.*>::(owned|borrowed)$|ErrorObject.*From<.*ErrorCode>>::from$", c.name() or "")]
        R.check(not other_err, "C16.R1", "%s:no-other-error-ctor" % name, "%s uses no other error constructor" % name, "%s builds an error object directly (%s)" % (name, [short(c.name()) for c in other_err]), where(other_err[0]) if other_err else None)
    R.floor("C16.R1", n, 2, "error construction sites in the decoding functions")
    ip = F.one(r"^jsonrpsee_types::params::invalid_params$")
    R.fn(ip)
    has = any(st["s"] == "assign" and st["rv"]["k"] == "agg" and st["rv"].get("variant") == "InvalidParams" for blk in ip.blocks for st in blk["st"])
    others = [st["rv"]["variant"] for blk in ip.blocks for st in blk["st"] if st["s"] == "assign" and st["rv"]["k"] == "agg" and st["rv"].get("adt", "").endswith("ErrorCode") and st["rv"]["variant"] != "InvalidParams"]
    R.check(has and not others, "C16.R1", "invalid_params:code", "invalid_params uses ErrorCode::InvalidParams (-32602)", "invalid_params uses %s" % (others or "no ErrorCode::InvalidParams"), "%s:%d" % (ip.file, ip.lo))
    # panic-capable string surgery: exactly the two sanctioned slicings of next_inner, nothing in the error constructor
    SURGERY = r"impl std::ops::Index<I> for str>::index$|impl std::ops::IndexMut<I> for str>::index_mut$|String::truncate$|str>::split_at$|String::remove$|String::drain$|String::replace_range$|String::insert$|String::insert_str$|String::split_off$"
    SANCTIONED = {"next_inner": (2, "`&json[1..]` after a one-byte ASCII token and `json[byte_offset..]` at serde_json's value boundary: both on char boundaries by construction")}
    for name, pat in list(FNS.items()) + [("invalid_params", r"^jsonrpsee_types::params::invalid_params$")]:
        b = F.one(pat)
        hits = [c for x in F.nested(b) for c in x.calls if re.search(SURGERY, c.name() or "") and not c.exp]
        allowed = SANCTIONED.get(name, (0, ""))[0]
        R.check(len(hits) <= allowed, "C16.R1", "%s:no-new-string-surgery" % name, "%s performs %d panic-capable string operations (sanctioned: %d)" % (name, len(hits), allowed), "%s performs a panic-capable string operation on decoded input / error text (%s): on a char boundary mismatch it panics instead of reporting -32602" % (name, sorted({short(c.name()) for c in hits})), where(hits[-1]) if hits else None)
    # one = parse::<[T;1]>
    one = F.one(FNS["one"])
    R.check(bool(one.calls_to(r"Params::<'a>::parse$")), "C16.R1", "one-via-parse", "one() is parse::<[T; 1]>()", "Params::one no longer goes through parse", "%s:%d" % (one.file, one.lo))


def _poison_blocks(b, tr):
    out = []
    for bi, blk in enumerate(b.blocks):
        if blk.get("cleanup"):
            continue
        for st in blk["st"]:
            if st["s"] == "assign":
                pl = st["pl"]
                pp = pl.get("p", [])
                if pl["l"] == 1 and "*" in pp and any(isinstance(e, dict) and e.get("f") == 0 for e in pp) and st["rv"]["k"] == "use":
                    lv = tr.origins(b, st["rv"]["op"])
                    if lv and all(l.kind == "const" and l.detail.get("str") == "" for l in lv):
                        out.append(bi)
    return out


def _provenance_calls(tr, body, op, depth=6):
    """callee names in the transitive provenance of `op` inside `body` (a call leaf's arguments are traced in turn)"""
    seen = set()
    work = [op]
    names = set()
    while work and depth > 0:
        depth -= 1
        nxt = []
        for o in work:
            for l in tr.origins(body, o):
                if l.kind == "call":
                    key = (l.detail.get("bb"), l.detail.get("callee"))
                    if key in seen:
                        continue
                    seen.add(key)
                    names.add(l.detail.get("callee") or "")
                    nxt += list(l.detail.get("args") or [])
                elif l.kind == "agg":
                    nxt += list(l.detail.get("ops") or [])
        work = nxt
    return names


def r2_poison_on_error(ctx):
    F, R = ctx.F, ctx.R
    b = F.one(FNS["next_inner"])
    R.fn(b)
    tr = ctx.tracer(follow_callers=False, follow_fields=False, inline_calls=False)
    pois = set(_poison_blocks(b, ctx.tracer(follow_callers=False, follow_fields=False)))
    R.floor("C16.R2", len(pois), 2, "assignments `self.0 = \"\"` in next_inner")
    exits = {bi for bi, blk in enumerate(b.blocks) if blk["term"] and blk["term"]["t"] == "return"}
    # (a) first byte: `]` (93) ends the array and empties the remainder; an element is read only behind `[` (91) / `,` (44)
    edges = flow.const_case_edges(b, (93, 91, 44))
    close = edges["93"]
    ok = bool(close) and all(dst in pois or flow.all_paths_pass(b, dst, pois, exits) for _, dst in close)
    R.check(ok, "C16.R2", "poison-on-end-of-array", "reaching `]` empties the remaining input", "after the closing `]` the remaining input is not emptied on every path: a later read can start inside what follows" if close else "next_inner no longer tests the first byte for `]`", "%s:%d" % (b.file, block_line(b, close[0][1]) if close else b.lo))
    reads = b.calls_to(r"^serde_json::Deserializer::<.*>::from_str$|^serde_json::de::Deserializer::<.*>::from_str$|^serde_json::(de::)?from_str$")
    if not reads:
        raise AnchorLost("the element read (serde_json::Deserializer::from_str) of next_inner")
    opening = set(edges["91"]) | set(edges["44"])
    free = flow.reach_without_edges(b, 0, opening)
    leak = [c for c in reads if c.bb in free]
    R.check(bool(edges["91"]) and bool(edges["44"]) and not leak, "C16.R2", "first-byte-table", "an element is read only after `[` or `,`", "an element is read although the first byte is neither `[` nor `,` (the read at %s is reachable without passing either test)" % [where(c) for c in leak] if leak else "the `[` / `,` tests of next_inner were not found", "%s:%d" % (b.file, b.lo))
    # (b) parse failure arm
    nx = [c for c in b.calls_to(r"Iterator::next$|StreamDeserializer.*::next$") if "StreamDeserializer" in (c.self_ty or "") + (c.name() or "")]
    R.check(len(nx) == 1, "C16.R2", "stream-next", "one streaming read per element", "%d streaming reads" % len(nx), "%s:%d" % (b.file, b.lo))
    err_ts = []
    for l, loc in enumerate(b.locals):
        if loc["ty"].startswith("std::result::Result<T,"):
            for bi, arms, otherwise in flow.switch_on(b, l):
                if "1" in arms:
                    err_ts.append(arms["1"])
    for c in nx:
        ok = bool(err_ts) and all(t in pois or flow.all_paths_pass(b, t, pois, exits) for t in err_ts)
        R.check(ok, "C16.R2", "poison-on-parse-failure", "a failed element read empties the remaining input", "after a failed element read the remaining input is kept: later reads can yield an element from the wrong position" if err_ts else "the failure arm of the element read was not found in next_inner", where(c))
    # success: the stored remainder is computed from byte_offset()
    stores = 0
    for bi, blk in enumerate(b.blocks):
        if blk.get("cleanup") or bi not in b.reachable:
            continue
        for st in blk["st"]:
            if not (st["s"] == "assign" and st["pl"]["l"] == 1 and [e for e in st["pl"].get("p", []) if isinstance(e, dict) and "f" in e] and st["rv"]["k"] == "use"):
                continue
            lv = tr.origins(b, st["rv"]["op"])
            if lv and all(l.kind == "const" for l in lv):
                continue
            stores += 1
            names = _provenance_calls(tr, b, st["rv"]["op"])
            R.check(any(re.search(r"StreamDeserializer::<.*>::byte_offset$", n or "") for n in names), "C16.R2", "advance-by-consumed-bytes", "on success the input advances by the bytes the value consumed", "the remainder stored after an element is not computed from byte_offset() (%s)" % sorted(short(n) for n in names)[:5], "%s:%d" % (b.file, st["sp"][0]))
    R.check(stores >= 1, "C16.R2", "advance-store", "next_inner stores the remainder after an element", "next_inner never stores the remainder after a successful read", "%s:%d" % (b.file, b.lo))
    R.note("the unexpected-first-byte arm returns an error without consuming: a repeated read yields the same error (allowed: 'later reads yield only errors or absent')")


def r3_exhaustion_table(ctx):
    F, R = ctx.F, ctx.R
    OPT = "std::option::Option"
    RES = "std::result::Result"
    for name, want_none in (("optional_next", "Ok(None)"), ("next", "Err")):
        b = F.one(FNS[name])
        R.fn(b)
        for label, ret in (("exhausted", Enum(OPT, 0, "None", [])), ("value", Enum(OPT, 1, "Some", [Enum(RES, 0, "Ok", [Sym("v")])])), ("error", Enum(OPT, 1, "Some", [Enum(RES, 1, "Err", [Sym("e")])]))):
            handlers = [
                (re.compile(r"ParamsSequence::<'a>::next_inner"), lambda it, n, a, ret=ret: ret),
                (re.compile(r"params::invalid_params$"), lambda it, n, a: Sym("invalid_params")),
            ]
            it = Interp(F, call_handlers=handlers)
            try:
                got = it.run(b, [Ref([Struct("ParamsSequence", [Sym("text")])])])
            except Unsupported as e:
                raise AnchorLost("%s is not a plain decision over next_inner's result any more (%s)" % (name, e))
            if label == "exhausted":
                if name == "optional_next":
                    ok = isinstance(got, Enum) and got.vname == "Ok" and isinstance(got.fields[0], Enum) and got.fields[0].vname == "None"
                else:
                    ok = isinstance(got, Enum) and got.vname == "Err" and got.fields[0] == Sym("invalid_params")
                R.check(ok, "C16.R3", "%s:exhausted" % name, "%s on an exhausted sequence -> %s" % (name, want_none), "%s on an exhausted sequence yields %r (expected %s)" % (name, got, want_none), "%s:%d" % (b.file, b.lo))
            elif label == "value":
                ok = isinstance(got, Enum) and got.vname == "Ok" and got.fields[0] == Sym("v")
                R.check(ok, "C16.R3", "%s:value" % name, "%s passes a decoded value through" % name, "%s turns a decoded value into %r" % (name, got), "%s:%d" % (b.file, b.lo))
            else:
                ok = isinstance(got, Enum) and got.vname == "Err" and got.fields[0] == Sym("e")
                R.check(ok, "C16.R3", "%s:error" % name, "%s passes a decode error through" % name, "%s turns a decode error into %r" % (name, got), "%s:%d" % (b.file, b.lo))


def r4_absent_params(ctx):
    F, R = ctx.F, ctx.R
    tr = ctx.tracer(follow_callers=False, follow_fields=False)
    p = F.one(FNS["parse"])
    uo = p.calls_to(r"Option::<.*>::unwrap_or$")
    ok = False
    for c in uo:
        for l in tr.origins(p, c.args[1]):
            if l.kind == "const" and l.detail.get("str") == "null":
                ok = True
    R.check(ok, "C16.R4", "parse:absent-is-null", "absent params are parsed as `null`", "Params::parse no longer substitutes \"null\" for absent params", "%s:%d" % (p.file, p.lo))
    s = F.one(r"^jsonrpsee_types::params::Params::<'a>::sequence$")
    R.fn(s)
    # decision table of sequence(): absent -> "", "[]" -> "", any other text -> that text
    ident = lambda it, n, a: deref(a[0])
    handlers = [
        (re.compile(r"PartialEq.*::(eq|ne)$"), lambda it, n, a: (deref(a[0]) == deref(a[1])) ^ n.endswith("::ne")),
        (re.compile(r"Deref>?::deref$|AsRef<.*>::as_ref$|Borrow<.*>::borrow$|Cow::<.*>::as_ref$|str::<impl str>::as_ref$"), ident),
        (re.compile(r"Option::<.*>::(as_ref|as_deref)$"), ident),
    ]
    table = []
    try:
        for label, inp in (("absent", Enum("std::option::Option", 0, "None", [])), ("empty-array", Enum("std::option::Option", 1, "Some", ["[]"])), ("text", Enum("std::option::Option", 1, "Some", [Sym("text")]))):
            got = Interp(F, call_handlers=handlers).run(s, [Ref([Struct("Params", [inp])])])
            inner = deref(got.fields[0]) if isinstance(got, Struct) and got.fields else got
            table.append((label, inner))
    except Unsupported as e:
        table = None
        why = str(e)
    if table is not None:
        want = {"absent": "", "empty-array": "", "text": Sym("text")}
        bad = [(l, g) for l, g in table if not (g == want[l])]
        R.check(not bad, "C16.R4", "sequence:absent-and-empty-array", "sequence(): absent -> empty, `[]` -> empty, other text -> itself", "Params::sequence maps %s" % ", ".join("%s params to %r" % (l, g) for l, g in bad), "%s:%d" % (s.file, s.lo))
    else:
        consts = []
        for bi, blk in enumerate(s.blocks):
            for st in blk["st"]:
                if st["s"] == "assign" and st["rv"]["k"] == "use":
                    k = op_const(st["rv"]["op"])
                    if k is not None and "str" in k:
                        consts.append(k["str"])
            t = blk["term"]
            if t and t["t"] == "call":
                for a in t["args"]:
                    k = op_const(a)
                    if k is not None and "str" in k:
                        consts.append(k["str"])
        R.check("" in consts and "[]" in consts, "C16.R4", "sequence:absent-and-empty-array", "absent params and `[]` both give the empty sequence (constant scan; the decision table could not be extracted: %s)" % why, "Params::sequence substitution constants are %s" % consts, "%s:%d" % (s.file, s.lo))



def rws_separator_sees_no_whitespace(ctx, rule="C16.WS"):
    """next_inner decides `[` / `,` / `]` from the *first byte* of the stored remainder, so the remainder must never start
    with whitespace: every store of a non-constant remainder into the cursor (`self.0`), in whichever ParamsSequence
    method, is the result of trim_start (or the first-byte test itself is preceded by a trim_start on every path).
    Otherwise `[1 ,2]` / `[1, null ]` - which a plain JSON parse accepts - is reported as invalid params"""
    F, R = ctx.F, ctx.R
    tr = ctx.tracer(follow_callers=False, follow_fields=False, inline_calls=False)
    ni = F.one(r"^jsonrpsee_types::params::ParamsSequence::<'a>::next_inner$")
    firsts = ni.calls_to(r"slice::<impl \[T\]>::first$|str::<impl str>::(chars|bytes|starts_with|strip_prefix)$")
    if not firsts:
        raise AnchorLost("the first-byte test of next_inner")
    trims = ni.calls_to(r"str::<impl str>::trim_start$|str::<impl str>::trim$")
    pre = any(flow.all_paths_pass(ni, 0, {t.bb}, {f.bb}) for t in trims for f in firsts) if trims else False
    n = 0
    for b in F.find(r"^jsonrpsee_types::params::ParamsSequence::<'a>::\w+$"):
        R.fn(b)
        for bi, blk in enumerate(b.blocks):
            if blk.get("cleanup") or bi not in b.reachable:
                continue
            for st in blk["st"]:
                if not (st["s"] == "assign" and st["pl"]["l"] == 1 and [e for e in st["pl"].get("p", []) if isinstance(e, dict) and "f" in e]):
                    continue
                if st["rv"]["k"] != "use":
                    continue
                lv = tr.origins(b, st["rv"]["op"])
                if lv and all(l.kind == "const" for l in lv):
                    continue   # poisoning with ""
                n += 1
                trimmed = any(l.kind == "call" and re.search(r"str::<impl str>::trim(_start)?$", l.detail["callee"] or "") for l in lv)
                R.check(trimmed or pre, rule, "%s:remainder-trimmed" % b.path.split("::")[-1], "the remainder stored after an element starts at the next token", "ParamsSequence::%s stores the remainder after an element without skipping whitespace (%s) although the next read looks at its first byte: `[1 ,2]` / `[1, null ]` are then rejected as invalid params while a plain JSON parse accepts them" % (b.path.split("::")[-1], [flow.leaf_str(l)[:60] for l in lv]), "%s:%d" % (b.file, st["sp"][0]))
    R.floor(rule, n, 1, "stores of the remaining text in ParamsSequence")


def rgen_generated_decoders(ctx):
    """the code that #[rpc(server)] generates around these decoders reports their errors (checked over the generated
    corpus of C17)"""
    from . import c17
    nd = c17.decode_errors_propagate(ctx, "C16.GEN")
    ctx.R.floor("C16.GEN", nd, 40, "parameter reads in generated server closures")
    na = c17.server_args_come_from_decoders(ctx, "C16.GEN")
    ctx.R.floor("C16.GEN.args", na, 60, "decoded arguments of generated server closures")
    # an optional element past the end is absent: Option-typed parameters (whatever path spells `Option`) are read with
    # optional_next, required ones with next (C17.W3 and the other wiring obligations over the corpus)
    c17.w_rules(ctx)
    nr = c17.subscription_decode_failures_are_rejected(ctx, "C16.GEN")
    ctx.R.floor("C16.GEN.reject", nr, 10, "parameter reads in generated subscription closures")


def rone_is_one_array_parse(ctx):
    """Params::one::<T> is the parse of a one-element array and nothing else: there is no second, laxer parse of the whole
    params text as T (`[1,2,3]` read as one Vec, a bare scalar read as the single parameter)"""
    F, R = ctx.F, ctx.R
    b = F.one(r"^jsonrpsee_types::params::Params::<'a>::one$")
    bodies = F.nested(b)
    ps = [c for x in bodies for c in x.calls_to(r"Params::<'a>::parse$|^serde_json::(de::)?from_str$")]
    for x in bodies:
        R.fn(x)
    gas = [c.ga[-1] if c.ga else "?" for c in ps]
    R.check(len(ps) == 1 and re.match(r"^\[T; 1\]$", gas[0] or ""), "C16.ONE", "one:single-array-parse", "one::<T> = parse::<[T; 1]>", "Params::one parses the params as %s: a shape that is not a one-element array is accepted when the whole text happens to deserialise as T" % gas, "%s:%d" % (b.file, b.lo))


def rown_into_owned(ctx):
    """Params::into_owned (what async handlers receive) is the same text as the borrowed params"""
    from .common import into_owned_fieldwise
    into_owned_fieldwise(ctx, "C16.OWN", r"^jsonrpsee_types::params::Params::<.*>::into_owned$", 1)


def rnext_reads_T(ctx):
    """`next::<T>` reads a T - not an Option<T>, for which a JSON null is 'absent'"""
    F, R = ctx.F, ctx.R
    b = F.one(r"^jsonrpsee_types::params::ParamsSequence::<'a>::next$")
    R.fn(b)
    ni = b.calls_to(r"ParamsSequence::<'a>::next_inner$")
    R.check(len(ni) == 1 and ni[0].ga and ni[0].ga[-1] == "T", "C16.NEXT", "next:reads-T", "next::<T> reads the element as T", "ParamsSequence::next::<T> does not read the element as T via next_inner::<T> (%s): a JSON null read with next() is reported as 'no more params' although a plain parse of the element succeeds" % ([c.ga for c in ni] or sorted({short(c.name()) for c in b.calls})[:4]), "%s:%d" % (b.file, b.lo))


def _poll_once_scan(F, R, rule, want_body):
    n = 0
    bad = []
    for b in F.real_bodies():
        if is_test_body(b) or not want_body(b):
            continue
        n += 1
        bad += [c for c in b.calls_to(r"FutureExt::now_or_never$|future::FutureExt::now_or_never$") if not c.exp]
    for c in bad:
        R.fn(c.body)
        R.bad(rule, "%s:now_or_never" % fkey(c.body), "%s polls a future once with now_or_never and drops it: if it is the rejection / answer of a call and the connection's queue is full at that moment, the answer (e.g. `invalid params`, -32602) is lost and replaced by the fallback `internal error`" % short(c.body.path), where(c))
    if not bad:
        R.ok(rule, "no-poll-once", "no poll-once-and-drop (now_or_never) in %d bodies" % n)
    return n


def rrej_rejections_are_driven(ctx):
    """the answer to a subscribe call whose parameters do not decode is the rejection carrying that error; wherever the
    library issues a rejection on behalf of generated code (jsonrpsee_core::proc_macros_support) its future is spawned or
    awaited, and nothing in server/core polls a future once and drops it (now_or_never)"""
    F, R = ctx.F, ctx.R
    n = _poll_once_scan(F, R, "C16.REJ", lambda b: b.crate in ("jsonrpsee_core", "jsonrpsee_server"))
    R.floor("C16.REJ", n, 300, "server/core bodies scanned for poll-once-and-drop")
    for b in F.real_bodies():
        if "::proc_macros_support::" not in b.path or is_test_body(b):
            continue
        for r in b.calls_to(r"PendingSubscriptionSink::reject$"):
            R.fn(b)
            holders = follow_value(b, r.dest["l"]) if r.dest else set()
            ok = any(sp.args and op_place(sp.args[0]) is not None and op_place(sp.args[0])["l"] in holders for sp in b.calls_to(r"tokio::(task::)?spawn(::spawn)?$|IntoFuture>?::into_future$"))
            R.check(ok, "C16.REJ", "%s:reject-driven" % fkey(b), "the rejection issued for generated code is spawned or awaited", "%s issues a rejection whose future is neither spawned nor awaited" % short(b.path), where(r))


def control_poll_once(ctx):
    from .common import control
    control(ctx, "C16.REJ", "FutureExt::now_or_never", lambda r: _poll_once_scan(ctx.F, r, "C16.REJ", lambda b: b.path.startswith("verif_fixtures::")))


CONTROLS = [control_poll_once]


def rjudge_only_the_decoders_say_invalid_params(ctx):
    """-32602 is the decoders' verdict: ErrorCode::InvalidParams is built by types::params::invalid_params (and named by the
    code tables) and nowhere else in the library - no layer in front of the handlers judges the params text by a heuristic
    of its own (a byte-level nesting count also counts brackets inside strings and refuses params that a full JSON parse
    reads without any mismatch)."""
    F, R = ctx.F, ctx.R
    n = 0
    bad = []
    ALLOWED = r"^jsonrpsee_types::params::invalid_params$|^<jsonrpsee_types::error::ErrorCode as |^jsonrpsee_types::error::ErrorCode::"
    for b in F.real_bodies():
        if not b.crate.startswith("jsonrpsee_") or is_test_body(b):
            continue
        n += 1
        for bi, blk in enumerate(b.blocks):
            if blk.get("cleanup"):
                continue
            for st in blk["st"]:
                if st["s"] == "assign" and st["rv"]["k"] == "agg" and st["rv"].get("variant") == "InvalidParams" and (st["rv"].get("adt") or "").endswith("ErrorCode") and not re.search(ALLOWED, b.path):
                    bad.append((b, st["sp"][0]))
                if st["s"] == "assign" and st["rv"]["k"] == "use":
                    k = op_const(st["rv"]["op"])
                    if k and (str(k.get("name", "")).endswith("INVALID_PARAMS_CODE") or str(k.get("int")) == "-32602") and not re.search(ALLOWED, b.path):
                        bad.append((b, st["sp"][0]))
    for b, line in bad:
        R.fn(b)
        R.bad("C16.R5", "%s:judges-params" % fkey(b), "%s produces `invalid params` (-32602) on its own: whether params are acceptable is decided by the decoders (agreement with a full JSON parse), not by a check in front of them" % short(b.path), "%s:%d" % (b.file, line))
    if not bad:
        R.ok("C16.R5", "only-decoders-judge", "ErrorCode::InvalidParams is produced only by invalid_params / the code tables (%d bodies)" % n)
    R.floor("C16.R5", n, 600, "library bodies scanned")


def rraw_params_text_is_not_reparsed(ctx):
    """the params text a handler reads is the text that was sent: on the server side (server crate, core::server, types)
    no incoming message is parsed into a `serde_json::Value` and decoded from there - a RawValue obtained from a Value is a
    re-rendering (wide integers pass through f64, duplicate keys collapse, deep nesting fails earlier), so the same call
    would be answered differently inside a batch than alone."""
    F, R = ctx.F, ctx.R
    n = 0
    bad = []
    for b in F.real_bodies():
        if is_test_body(b) or not (b.crate in ("jsonrpsee_server", "jsonrpsee_types") or re.search(r"^<?jsonrpsee_core::(server|http_helpers|middleware|params)", b.path)):
            continue
        n += 1
        for c in b.calls:
            nm = c.name() or ""
            VAL = r"(^|<|, |&)(serde_json::Value|serde_json::value::Value|jsonrpsee_core::JsonValue|jsonrpsee_types::JsonValue)\b"
            if (re.search(r"^serde_json::(de::)?(from_slice|from_str|from_reader|from_value)$|^serde_json::(value::)?to_value$|Deserialize<'\w+> for [^>]*>::deserialize$|Deserialize<'\w+>>::deserialize$", nm) and any(re.search(VAL, g) for g in (c.ga or []))) or re.search(r"serde_json::Value as .*Deserializer<|serde_json::value::de::", nm):
                bad.append(c)
    for c in bad:
        R.fn(c.body)
        R.bad("C16.VALUE", "%s:%s" % (fkey(c.body), (c.name() or "").split("::")[-1]), "%s parses / decodes through serde_json::Value (%s): the params text handed to the handler is then a re-rendering of what was sent, not the text itself" % (short(c.body.path), short(c.name())), where(c))
    if not bad:
        R.ok("C16.VALUE", "no-value-roundtrip", "no message is decoded through serde_json::Value in %d server-side bodies" % n)
    R.floor("C16.VALUE", n, 400, "server-side bodies scanned")


def rplain_request_decoder(ctx):
    """the params text reaches the decoders whatever its shape: the Request / Notification decoders are the plain derived
    ones (a validation hook on `params` makes the server take a call with scalar params for a notification and never
    answer it, instead of -32602) (= C01.R8)"""
    from . import c01
    c01.r8_classifiers_are_plain(ctx)


def rbody_http_body_reaches_the_decoders_whole(ctx):
    """the params text the decoders see is the text that was sent: the HTTP body reader appends every frame whole and
    decides nothing on a single frame's bytes (a reader that trims each chunk removes whitespace *inside* a string value
    when a chunk boundary falls there - a silently different value) (= C19.R2)"""
    from . import c19
    c19.r2_chunk_independence(ctx)


def robj_is_object_looks_at_the_first_byte_only(ctx):
    """generated servers pick the by-name or the positional decoder on `Params::is_object()`: that is `starts_with('{')`
    and nothing else. An extra clause (`&& json != "{}"`) sends `{}` to the positional decoder, which rejects anything that
    does not start with `[` - a plain parse of `{}` into an all-optional signature succeeds."""
    F, R = ctx.F, ctx.R
    b = F.one(r"^jsonrpsee_types::params::Params::<'a>::is_object$")
    R.fn(b)
    calls = [c for x in F.nested(b) for c in x.calls if not c.exp]
    sw = [c for c in calls if re.search(r"str>::starts_with$|impl str>::starts_with$", c.name() or "")]
    cmp_ = [c for c in calls if re.search(r"PartialEq.*::(eq|ne)$|::ends_with$|::len$|::contains$|::is_empty$", c.name() or "")]
    R.check(len(sw) == 1 and not cmp_, "C16.OBJ", "is_object:first-byte-only", "is_object() is starts_with('{')", "Params::is_object tests more than the first byte (%s): some object texts are sent to the positional decoder and answered -32602 although a plain parse accepts them" % sorted({short(c.name()) for c in cmp_}), "%s:%d" % (b.file, b.lo))


def rext_request_wrappers_only_attach_extensions(ctx):
    """what the decoders hand on is what serde decoded: the server's request wrappers (deserialize_with_ext::{call,notif}::
    {from_slice,from_str}) decode and attach the connection's extensions - nothing else. A wrapper that also edits the
    request (drops `"params": []` because a sequence reader would not mind) changes what `parse` / `one` see: `[]` becomes
    absent, which those read as `null`."""
    F, R = ctx.F, ctx.R
    n = 0
    ALLOWED = r"^serde_json::(de::)?from_(slice|str)$|::extensions_mut$|Clone>?::clone$|Try>?::branch$|FromResidual(<.*>)?>?::from_residual$|^std::mem::drop$|^core::mem::drop$"
    for b in F.real_bodies():
        if b.crate != "jsonrpsee_server" or is_test_body(b) or not re.match(r"^jsonrpsee_server::utils::deserialize_with_ext::(call|notif)::from_(slice|str)$", b.path):
            continue
        n += 1
        R.fn(b)
        extra = [c for x in F.nested(b) for c in x.calls if not re.search(ALLOWED, c.name() or "") and not re.search(ALLOWED, c.callee or "")]
        writes = []
        for x in F.nested(b):
            for blk in x.blocks:
                for st in blk["st"]:
                    if st["s"] == "assign" and any(isinstance(e, dict) and e.get("n") in ("params", "method", "id", "jsonrpc") for e in st["pl"].get("p", [])):
                        writes.append("%s:%d" % (x.file, st["sp"][0]))
        R.check(not extra and not writes, "C16.EXT", "%s:only-decodes-and-attaches" % fkey(b), "%s decodes and attaches the extensions" % short(b.path), "%s does more than decode and attach the extensions (calls %s; member writes at %s): the request a handler gets is no longer the request that was sent" % (short(b.path), sorted({short(c.name()) for c in extra})[:5], writes[:3]), "%s:%d" % (b.file, b.lo))
    R.floor("C16.EXT", n, 4, "request wrappers of the server")


LIB_RULES = [robj_is_object_looks_at_the_first_byte_only, rext_request_wrappers_only_attach_extensions, rbody_http_body_reaches_the_decoders_whole, rraw_params_text_is_not_reparsed, rjudge_only_the_decoders_say_invalid_params, rplain_request_decoder, rrej_rejections_are_driven, r1_only_invalid_params, r2_poison_on_error, r3_exhaustion_table, r4_absent_params, rown_into_owned, rnext_reads_T, rws_separator_sees_no_whitespace, rone_is_one_array_parse]
CONFIGS_QUICK = ["libs-all", "corpus"]
CONFIGS_THOROUGH = ["libs-all", "facade-full", "corpus"]


def _only(cfgs, rule):
    def run(ctx):
        if ctx.config in cfgs:
            return rule(ctx)
    run.__name__ = rule.__name__
    return run


RULES = [_only(("libs-all", "facade-full"), r) for r in LIB_RULES] + [_only(("corpus",), rgen_generated_decoders)]

LEVEL_TEXT = (
    "Only the error-discipline slice of the property is claimed: the single error constructor (hence the single code "
    "-32602) on every failure path of the five decoding functions, poisoning of the remaining input on both failure arms, "
    "the exhaustion table of next/optional_next and the absent-params substitutions. Agreement with a full JSON parse for "
    "every text is value-level and explicitly not decided."
)
LEVEL_NOTE = "Trusted: rustc MIR; serde_json. Not decided (the bulk of the statement): element-by-element agreement with a plain parse, whitespace handling, slicing panics."
TECHNIQUE = "error-constructor discipline scan + dominance of poison assignments over failure arms + decision-table extraction"

"""C01 — server: at most one well-formed reply carrying the request's own id (structural clauses)."""
import re

from .common import (fkey, where, short, arg_is_local, enclosing_loop_next, follow_value, block_line, terminal_field, callback_invocations,
                     awaited_value_local, read_body_loop_exits, SERVER, CORE)
from ..facts import op_place, op_const, AnchorLost, is_test_body
from .. import flow

PID = "C01"
LEVEL = "other"
EXPLANATION = (
    "Static analysis over MIR of the server and core crates. Decided: R1 in every body that has a request id in scope "
    "(callback closures, RpcService::call, PendingSubscriptionSink) the id operand of every MethodResponse constructor "
    "originates from that id (never a constant Id::Null); R1b at every handler invocation the id/params operands "
    "originate from the request's own id/params; R2 in handle_rpc_call's single-message region every path runs exactly "
    "one of {RpcServiceT::call, RpcServiceT::notification, error(prepare_error)} and the attempts are ordered Request -> "
    "Notification -> id recovery; R3 the WebSocket per-message task writes at most once to the connection sink on every "
    "path, the reply write is control-dependent on is_method_call() || is_batch(), and the unparseable-prefix path sends "
    "one ParseError with Id::Null and returns; R4 MethodCallback slots are invoked only from RpcService::call and the "
    "serverless Methods::inner_call, the callee comes from method_with_name(request.method), and notification paths "
    "invoke nothing; R5 the failure-class constants (-32601 on lookup miss, -32602 via invalid_params, prepare_error's "
    "-32600/-32700 split, -32603 for a failed blocking task / unsupported subscriptions); R6 handle_rpc_call has exactly "
    "the two transport callers and the two prefix sniffers agree on window 128, is_ascii_whitespace and the start bytes; "
    "R7 the four request/notification decoders take their value from serde_json::from_slice/from_str (which reject "
    "trailing bytes) and no hand-driven serde_json::Deserializer in the library crates returns successfully without end(). "
    "NOT decided: JSON well-formedness for all inputs (serde_json), handler-result equality, boundary arithmetic."
)
RULE_TEXT = "instances = response-constructor sites with an id in scope, handler invocations, classification paths, sink writes per path, sniffers"
TRUSTED = ["rustc MIR + trait resolution", "serde_json", "tokio mpsc"]
ASSUMPTIONS = ["user middleware and user handlers are outside the analysed program"]

CTOR = r"MethodResponse::(response|error|subscription_response|subscription_error)$"
HRC = r"^jsonrpsee_server::server::handle_rpc_call::\{closure#0\}$"
RSC = r"^<jsonrpsee_server::middleware::rpc::RpcService as jsonrpsee_core::middleware::RpcServiceT>::call$"
INNER = r"^jsonrpsee_core::server::rpc_module::Methods::inner_call::\{closure#0\}$"
# the per-message task of the WebSocket transport: whichever body of transport::ws (an async block inside background_task or
# a named async fn it spawns) hands the message to handle_rpc_call
WSTASK = r"^jsonrpsee_server::transport::ws::\w+::\{closure#0\}(::\{closure#\d+\})?$"

_ID_TY = re.compile(r"jsonrpsee_types::(params::)?Id<|jsonrpsee_types::(request::)?Request<|PendingSubscriptionSink")


def _id_in_scope(F, body):
    b = body
    while b is not None:
        for i in range(1, b.argc + 1):
            if _ID_TY.search(b.locals[i]["ty"]):
                return True
        for u in b.upvars:
            if _ID_TY.search(u["ty"]):
                return True
        b = F.parent_body(b) if b.kind == "Closure" else None
    return False


def r1_id_echo(ctx):
    F, R = ctx.F, ctx.R
    tr = ctx.tracer(follow_callers=False, follow_fields=False)
    n = 0
    for c in F.all_calls(CTOR):
        b = c.body
        if b.crate not in (CORE, SERVER) or "::client::" in b.path:
            continue
        if re.search(CTOR, b.path):
            continue  # constructor wrappers forward their own id parameter (checked as sites of their callers)
        if not _id_in_scope(F, b):
            continue
        n += 1
        R.fn(b)
        ordn = sorted(x.bb for x in b.calls_to(CTOR)).index(c.bb)
        key = "%s:%s#%d" % (fkey(b), c.name().split("::")[-1], ordn)
        leaves = tr.origins(b, c.args[0])
        bad = []
        good = False
        for lf in leaves:
            if lf.kind == "param" and _ID_TY.search(lf.detail.get("ty") or ""):
                good = True
            elif lf.kind == "field" and lf.detail["fields"][-1][1] == "id":
                good = True
            elif lf.kind == "agg" and lf.detail.get("adt", "").endswith("Id"):
                bad.append("a constant Id::%s" % lf.detail.get("variant"))
            elif lf.kind == "const":
                bad.append("a constant")
            elif lf.kind == "call" and re.search(r"prepare_error$|into_parts$", lf.detail["callee"] or ""):
                good = True  # id recovered from the message itself
            else:
                bad.append(flow.leaf_str(lf))
        if bad or not good:
            R.bad("C01.R1", key, "reply built in %s does not echo the request's id: it carries %s although the call's id is in scope" % (short(b.path), ", ".join(sorted(set(bad))) or "no id-typed origin"), where(c))
        else:
            R.ok("C01.R1", key, "reply carries the request's own id", where(c), {"origin": [flow.leaf_str(l) for l in leaves][:3]})
    R.floor("C01.R1", n, 15, "response-constructor sites with a request id in scope")


def r1b_handler_args(ctx):
    F, R = ctx.F, ctx.R
    tr = ctx.tracer(follow_callers=False, follow_fields=False)
    n = 0
    for pat, label in ((RSC, "RpcService::call"), (INNER, "Methods::inner_call")):
        b = F.one(pat)
        R.fn(b)
        for inv in callback_invocations(b):
            v = inv["variant"][1] if inv["variant"] else None
            if v not in ("Sync", "Async", "Subscription", "Unsubscription") or inv["ops"] is None:
                continue
            n += 1
            for pos, fld in ((0, "id"), (1, "params")):
                leaves = tr.origins(b, inv["ops"][pos])
                if fld == "params":
                    # Params::new(req.params.as_ref().map(..)) : follow the constructor's argument
                    l2 = []
                    for lf in leaves:
                        if lf.kind == "call" and re.search(r"Params::<'.*>::new$", lf.detail["callee"] or ""):
                            wb = F.bodies[lf.where]
                            for x in tr.origins(wb, lf.detail["args"][0]):
                                if x.kind == "call" and re.search(r"Option::<.*>::map$", x.detail["callee"] or ""):
                                    l2 += tr.origins(wb, x.detail["args"][0])
                                else:
                                    l2.append(x)
                        else:
                            l2.append(lf)
                    leaves = l2
                ok = bool(leaves) and all((lf.kind == "field" and lf.detail["fields"][-1][1] == fld and "Request" in (lf.detail["fields"][-1][0] or "")) or (lf.kind == "param" and "Request" in (lf.detail.get("ty") or "")) for lf in leaves)
                R.check(ok, "C01.R1b", "%s:%s:%s" % (label, v, fld), "%s handler receives the request's own %s" % (v, fld), "%s handler is invoked with a %s that is not the request's own: %s" % (v, fld, [flow.leaf_str(l) for l in leaves][:4]), where(inv["call"]))
    R.floor("C01.R1b", n, 8, "handler invocations")


def classification_sites(F, body):
    """calls that try to interpret the message, labelled: call | notif | invalid"""
    out = []
    for c in body.calls:
        nm = c.name() or ""
        if re.search(r"deserialize_with_ext::call::(from_slice|from_str)$", nm):
            out.append((c, "call"))
        elif re.search(r"deserialize_with_ext::notif::(from_slice|from_str)$", nm):
            out.append((c, "notif"))
        elif re.search(r"server::(helpers::)?prepare_error$", nm):
            out.append((c, "invalid"))
        elif re.search(r"^serde_json::(de::)?(from_slice|from_str)$", c.callee or "") and c.ga and "InvalidRequest" in c.ga[-1]:
            out.append((c, "invalid"))
        elif re.search(r"^serde_json::(de::)?(from_slice|from_str)$", c.callee or "") and c.ga and re.search(r"jsonrpsee_types::(request::)?(Request|Notification)<", c.ga[-1]):
            out.append((c, "call" if "Request<" in c.ga[-1] else "notif"))
    return out


def _single_region(body, F=None, is_single_param=2):
    """(entry block of the single-message region, entry of the batch region): the first switch on handle_rpc_call's
    second parameter (the single/batch flag), identified by position and type, not by name"""
    # in the coroutine the flag is an upvar: a bool local defined by a move out of the coroutine environment `_1.<k>` where
    # upvar k is the k-th parameter of the enclosing fn
    flag_locals = set()
    for l, defs in body.defs.items():
        if body.locals[l]["ty"] != "bool":
            continue
        for bi, si, dpl, src in defs:
            if src[0] == "rv" and src[1]["k"] == "use":
                q = op_place(src[1]["op"])
                if q is not None and q["l"] == 1:
                    fs = [e for e in q.get("p", []) if isinstance(e, dict) and "f" in e]
                    if fs and fs[0]["f"] == is_single_param - 1:
                        flag_locals.add(l)
    for bi, blk in enumerate(body.blocks):
        t = blk["term"]
        if t and t["t"] == "switch" and bi in body.reachable:
            p = op_place(t["discr"])
            if p is None:
                continue
            if flow._local_copies_back(body, p["l"], 6) & flag_locals:
                arms = {v: tb for v, tb in t["arms"]}
                return (t["otherwise"], arms.get("0")) if "0" in arms else (arms.get("1"), t["otherwise"])
    return None, None


def hrc_parts(F):
    """((body, entry block) of the single-message handling, (body, entry block) of the batch handling). Both live in
    handle_rpc_call, on the two arms of the switch on its single/batch flag - or in a helper of server.rs that is called on
    that arm only (then the helper's whole body is the region)."""
    hb = F.one(HRC)
    s, bt = _single_region(hb)
    if s is None or bt is None:
        raise AnchorLost("switch on is_single in handle_rpc_call")

    def part(entry, other, marker):
        if any(c.bb in (hb.reach_from(entry) | {entry}) for c in hb.calls if re.search(marker, (c.name() or "")) or re.search(marker, c.callee or "")):
            return hb, entry
        for c in hb.calls:
            nm = c.name() or ""
            if not nm.startswith("jsonrpsee_server::server::") or re.search(r"\{closure#\d+\}$", nm):
                continue
            tgt = F.bodies.get(nm + "::{closure#0}") or F.bodies.get(nm)
            if tgt is None or tgt is hb:
                continue
            if any(re.search(marker, (x.name() or "")) or re.search(marker, x.callee or "") for x in tgt.calls):
                if not hb.dominates(entry, c.bb) or hb.dominates(other, c.bb):
                    raise AnchorLost("%s is not called on its own arm of the single/batch switch only" % nm)
                return tgt, 0
        raise AnchorLost("the code handling this arm of handle_rpc_call (marker %s)" % marker)

    return part(s, bt, r"deserialize_with_ext::call::from_slice$"), part(bt, s, r"RpcServiceT::batch$")


def r2_classify_once(ctx):
    F, R = ctx.F, ctx.R
    (b, single), (bb_, batch_e) = hrc_parts(F)
    R.fn(b)
    batch = batch_e if bb_ is b else None
    region = b.reach_from(single) | {single}
    sites = [(c, k) for c, k in classification_sites(F, b) if c.bb in region and enclosing_loop_next(b, c.bb) is None and (batch is None or not b.dominates(batch, c.bb))]
    order = [k for c, k in sorted(sites, key=lambda x: len(b.dom[x[0].bb]))]
    R.check(order == ["call", "notif", "invalid"], "C01.R2", "single:attempt-order", "a single message is tried as Request, then Notification, then id recovery", "single-message classification order is %s (a Notification attempt before the Request attempt swallows every call, because unknown members such as `id` are ignored)" % order, "%s:%d" % (b.file, b.lo))
    # each later attempt only on the Err arm of the earlier one
    ss = sorted(sites, key=lambda x: len(b.dom[x[0].bb]))
    for (c1, k1), (c2, k2) in zip(ss, ss[1:]):
        err_t = None
        for sb, arms, other in flow.switch_on(b, c1.dest["l"]):
            err_t = arms.get("1", other if "0" in arms else None)
        R.check(err_t is not None and b.dominates(err_t, c2.bb), "C01.R2", "single:%s-then-%s" % (k1, k2), "%s attempt happens only after the %s attempt failed" % (k2, k1), "%s attempt is not confined to the failure arm of the %s attempt" % (k2, k1), where(c2))
    # exactly one outcome per path
    outcomes = {}
    for c in b.calls:
        nm = c.name() or ""
        if c.bb not in region or (batch is not None and b.dominates(batch, c.bb)):
            continue
        if re.search(r"RpcServiceT::(call|notification|batch)$", c.callee or "") or re.search(CTOR, nm):
            outcomes[c.bb] = outcomes.get(c.bb, 0) + 1
    stop = set()
    pc = flow.path_counts(b, single, outcomes, stop=None)
    # restrict to paths inside the single region: the region ends at function exits
    R.paths_enumerated += 1
    # a single message that is neither a call nor a notification is answered from prepare_error's (id, code) - the only
    # place that recovers the id; no shortcut builds a reply with a fixed id/code inside the single-message region
    tr = ctx.tracer(follow_callers=False, follow_fields=False)
    for e in b.calls_to(CTOR):
        if single is None or not b.dominates(single, e.bb) or (batch is not None and b.dominates(batch, e.bb)):
            continue
        for ai, what in ((0, "id"), (1, "error")):
            lv = tr.origins(b, e.args[ai])
            okp = any(l.kind == "call" and re.search(r"prepare_error$", l.detail["callee"] or "") for l in lv)
            R.check(okp, "C01.R2", "single:error-%s-from-prepare_error" % what, "the %s of the error reply to a single message comes from prepare_error" % what, "handle_rpc_call answers a single message with an error whose %s is %s, not prepare_error's: a message whose id is recoverable (or that is a notification) gets a fixed reply (e.g. -32700 / null) on this shortcut" % (what, [flow.leaf_str(l)[:60] for l in lv]), where(e))
    R.check(pc == (1, 1), "C01.R2", "single:exactly-one-outcome", "every path of the single-message region produces exactly one of call / notification / error reply", "single-message paths produce %s outcomes (expected exactly 1)" % (pc,), "%s:%d" % (b.file, b.lo))
    # Ok(request) -> call(request) ; Ok(notif) -> notification(notif)
    tr = ctx.tracer(follow_callers=False, follow_fields=False)
    for c, k in sites:
        if k == "invalid":
            continue
        want = {"call": r"RpcServiceT::call$", "notif": r"RpcServiceT::notification$"}[k]
        disp = [d for d in b.calls if re.search(want, d.callee or "") and d.bb in region and enclosing_loop_next(b, d.bb) is None]
        ok = False
        for d in disp:
            lv = tr.origins(b, d.args[1])
            if any(l.kind == "call" and l.detail["bb"] == c.bb for l in lv):
                ok = True
        R.check(ok, "C01.R2", "single:%s-dispatches-parsed-value" % k, "the parsed %s is what is dispatched" % k, "the value dispatched as %s is not the one parsed from the message" % k, where(c))


def r3_ws_reply_once(ctx):
    F, R = ctx.F, ctx.R
    tasks = [b for b in F.find(WSTASK) if b.calls_to(r"server::handle_rpc_call$")]
    if len(tasks) != 1:
        raise AnchorLost("the per-message task in ws::background_task (found %d)" % len(tasks))
    b = tasks[0]
    R.fn(b)
    tr = ctx.tracer(follow_callers=False, follow_fields=False)
    writes = b.calls_to(r"MethodSink::(send|send_error|try_send|send_timeout)$")
    w = {}
    for c in writes:
        w[c.bb] = w.get(c.bb, 0) + 1
    pc = flow.path_counts(b, 0, w)
    R.paths_enumerated += 1
    R.check(pc is not None and pc[1] <= 1, "C01.R3", "ws-task:at-most-one-write", "every path of the per-message task writes at most once to the connection (%s)" % (pc,), "a path of the per-message task writes %s times to the connection: one message, several replies" % (pc,), "%s:%d" % (b.file, b.lo))
    hrc = b.calls_to(r"server::handle_rpc_call$")[0]
    for c in writes:
        if c.name().endswith("::send") and b.dominates(hrc.bb, c.bb):
            # control dependent on is_method_call() || is_batch()
            g1 = b.calls_to(r"MethodResponse::is_method_call$")
            g2 = b.calls_to(r"MethodResponse::is_batch$")
            ok = False
            if g1 and g2:
                # reachable only via true(is_method_call) or true(is_batch): both-false edge must not reach the write
                f2 = None
                for sb, arms, other in flow.switch_on(b, g2[0].dest["l"]):
                    f2 = arms.get("0")
                f1 = None
                for sb, arms, other in flow.switch_on(b, g1[0].dest["l"]):
                    f1 = arms.get("0")
                if f1 is not None and f2 is not None:
                    ok = b.dominates(g1[0].bb, c.bb) and c.bb not in (b.reach_from(f2) | {f2}) and b.dominates(f1, g2[0].bb)
            R.check(ok, "C01.R3", "ws-task:reply-only-for-calls-and-batches", "the reply write is guarded by is_method_call() || is_batch()", "the reply write is not guarded by is_method_call() || is_batch(): subscription / notification responses would be written a second time", where(c))
            # what is written is the response's json
            lv = tr.origins(b, c.args[1])
            okj = any(l.kind == "call" and re.search(r"MethodResponse::into_parts$|MethodResponse::(to_json|into_json)$", l.detail["callee"] or "") for l in lv)
            R.check(okj, "C01.R3", "ws-task:writes-the-response", "the bytes written are the MethodResponse's json", "the bytes written are not the MethodResponse's json", where(c))
    # garbage prefix: ParseError + Id::Null + return
    se = [c for c in writes if c.name().endswith("::send_error")]
    R.check(len(se) == 1, "C01.R3", "ws-task:garbage-path", "exactly one send_error site (unparseable prefix)", "%d send_error sites in the per-message task" % len(se), "%s:%d" % (b.file, b.lo))
    for c in se:
        idl = tr.origins(b, c.args[1])
        R.check(any(l.kind == "agg" and l.detail.get("variant") == "Null" for l in idl), "C01.R3", "ws-task:garbage-id-null", "unparseable text is answered with id null", "unparseable text is not answered with Id::Null", where(c))
        el = tr.origins(b, c.args[2])
        R.check(any(l.kind == "agg" and l.detail.get("variant") == "ParseError" for l in el), "C01.R3", "ws-task:garbage-code", "unparseable text is answered with ParseError (-32700)", "unparseable text is not answered with ErrorCode::ParseError: %s" % [flow.leaf_str(l) for l in el], where(c))
        R.check(not b.can_reach(c.bb, hrc.bb) or c.bb == hrc.bb, "C01.R3", "ws-task:garbage-no-dispatch", "no dispatch after the garbage reply", "handle_rpc_call is reachable after the ParseError reply", where(c))


def r4_invocation_authority(ctx):
    F, R = ctx.F, ctx.R
    allowed = {
        "jsonrpsee_server::middleware::rpc::RpcService::call": "the server's terminal RPC service",
        "jsonrpsee_core::server::rpc_module::Methods::inner_call::{closure#0}": "serverless helper used by RpcModule::call/subscribe in tests and embedders",
    }
    n = 0
    for b in F.real_bodies():
        if is_test_body(b) or b.crate not in (CORE, SERVER):
            continue
        for inv in callback_invocations(b):
            if inv["variant"] and (inv["variant"][0] or "").endswith(("MethodCallback::Sync", "MethodCallback::Async", "MethodCallback::Subscription", "MethodCallback::Unsubscription")):
                n += 1
                k = fkey(b)
                R.check(k in allowed, "C01.R4", "invoker:%s:%s" % (k, inv["variant"][1]), "handler slot %s invoked from %s" % (inv["variant"][1], short(k)), "a registered handler (%s slot) is invoked from %s, outside RpcService::call / Methods::inner_call" % (inv["variant"][1], k), where(inv["call"]))
    R.floor("C01.R4", n, 8, "MethodCallback invocations")
    # callee comes from method_with_name(&req.method)
    tr = ctx.tracer(follow_callers=False, follow_fields=False)
    b = F.one(RSC)
    look = b.calls_to(r"Methods::method_with_name$")
    R.check(len(look) == 1, "C01.R4", "RpcService::call:lookup", "one lookup by name", "%d method lookups in RpcService::call" % len(look), "%s:%d" % (b.file, b.lo))
    for l in look:
        lv = tr.origins(b, l.args[1])
        ok = bool(lv) and all(x.kind == "field" and x.detail["fields"][-1][1] == "method" for x in lv)
        R.check(ok, "C01.R4", "RpcService::call:lookup-key", "the lookup key is the request's method name", "the handler is looked up with something else than the request's method: %s" % [flow.leaf_str(x) for x in lv], where(l))
        for inv in callback_invocations(b):
            R.check(b.dominates(l.bb, inv["call"].bb), "C01.R4", "RpcService::call:%s-after-lookup" % (inv["variant"][1] if inv["variant"] else "?"), "the invoked slot is the looked-up one", "a handler is invoked without the name lookup", where(inv["call"]))
        # None arm -> MethodNotFound, invokes nothing
        none_t = None
        for sb, arms, other in flow.switch_on(b, l.dest["l"]):
            none_t = arms.get("0")
        if none_t is None:
            R.anchor_lost("C01.R4", "match on method_with_name's result")
        else:
            reach = b.reach_from(none_t) | {none_t}
            inv_in = [i for i in callback_invocations(b) if i["call"].bb in reach]
            R.check(not inv_in, "C01.R4", "RpcService::call:none-invokes-nothing", "an unknown method invokes no handler", "a handler is invoked on the lookup-miss arm", "%s:%d" % (b.file, block_line(b, none_t)))
            mnf = False
            for bi in reach:
                for st in b.blocks[bi]["st"]:
                    if st["s"] == "assign" and st["rv"]["k"] == "agg" and st["rv"].get("variant") == "MethodNotFound":
                        mnf = True
            R.check(mnf, "C01.R5", "lookup-miss:-32601", "a lookup miss is answered with MethodNotFound", "a lookup miss is not answered with ErrorCode::MethodNotFound", "%s:%d" % (b.file, block_line(b, none_t)))
    # notification paths invoke nothing
    for pat in (r"RpcService as jsonrpsee_core::middleware::RpcServiceT>::notification(::\{closure#0\})?$",):
        for nb in F.find(r"^<jsonrpsee_server::middleware::rpc::" + pat):
            R.fn(nb)
            bad = callback_invocations(nb) or nb.calls_to(r"Methods::method_with_name$|RpcServiceT::call$")
            R.check(not bad, "C01.R4", "notification:%s" % fkey(nb), "a notification runs no handler", "the notification path looks up or invokes a handler", "%s:%d" % (nb.file, nb.lo))
    bat = F.find(r"^<jsonrpsee_server::middleware::rpc::RpcService as jsonrpsee_core::middleware::RpcServiceT>::batch::\{closure#0\}$")
    for nb in bat:
        calls = nb.calls_to(r"RpcServiceT::call$|rpc::RpcService as .*>::call$")
        for c in calls:
            # inside the Call arm only: operand is the BatchEntry::Call payload
            lv = tr.origins(nb, c.args[1])
            ok = any("Call" in " ".join(l.chain) for l in lv)
            R.check(ok, "C01.R4", "batch:call-arm-only", "batch executes only entries classified as calls", "batch executes an entry that is not the Call payload", where(c))


def _consts_in(body, names):
    found = {}
    for c in body.calls:
        for a in c.args:
            k = op_const(a)
            if k and "name" in k:
                for n in names:
                    if k["name"].endswith(n):
                        found[n] = k.get("int")
    for bi, blk in enumerate(body.blocks):
        for st in blk["st"]:
            if st["s"] == "assign" and st["rv"]["k"] == "use":
                k = op_const(st["rv"]["op"])
                if k and "name" in k:
                    for n in names:
                        if k["name"].endswith(n):
                            found[n] = k.get("int")
    return found


def r5_failure_classes(ctx):
    F, R = ctx.F, ctx.R
    pe = F.one(r"^jsonrpsee_core::server::helpers::prepare_error$")
    R.fn(pe)
    tr = ctx.tracer(follow_callers=False, follow_fields=False)
    parse = [c for c in pe.calls_to(r"^serde_json::(de::)?from_slice$") if c.ga and "InvalidRequest" in c.ga[-1]]
    R.check(len(parse) == 1, "C01.R5", "prepare_error:parse", "prepare_error parses an InvalidRequest", "prepare_error no longer parses an InvalidRequest", "%s:%d" % (pe.file, pe.lo))
    for c in parse:
        ok_t = err_t = None
        for sb, arms, other in flow.switch_on(pe, c.dest["l"]):
            ok_t = arms.get("0")
            err_t = arms.get("1")
        variants = {}
        for label, t in (("ok", ok_t), ("err", err_t)):
            if t is None:
                continue
            for bi in (pe.reach_from(t) | {t}):
                if not pe.dominates(t, bi):
                    continue
                for st in pe.blocks[bi]["st"]:
                    if st["s"] == "assign" and st["rv"]["k"] == "agg" and st["rv"].get("adt", "").endswith("ErrorCode"):
                        variants.setdefault(label, set()).add(st["rv"]["variant"])
                    if st["s"] == "assign" and st["rv"]["k"] == "agg" and st["rv"].get("adt", "").endswith("Id") and st["rv"].get("variant") == "Null":
                        variants.setdefault(label + "-id", set()).add("Null")
        R.check(variants.get("ok") == {"InvalidRequest"}, "C01.R5", "prepare_error:recoverable->-32600", "JSON with a recoverable id is InvalidRequest", "prepare_error's parsed arm yields %s" % variants.get("ok"), where(c))
        R.check(variants.get("err") == {"ParseError"} and variants.get("err-id") == {"Null"}, "C01.R5", "prepare_error:garbage->-32700-null", "unparsable text is ParseError with Id::Null", "prepare_error's failure arm yields %s / id %s" % (variants.get("err"), variants.get("err-id")), where(c))
        R.check("ok-id" not in variants, "C01.R5", "prepare_error:recovered-id-kept", "the recovered id is kept", "prepare_error replaces a recoverable id by Id::Null", where(c))
    # invalid_params -> InvalidParams
    ip = F.one(r"^jsonrpsee_types::params::invalid_params$")
    R.fn(ip)
    has = any(st["s"] == "assign" and st["rv"]["k"] == "agg" and st["rv"].get("variant") == "InvalidParams" for blk in ip.blocks for st in blk["st"])
    R.check(has, "C01.R5", "invalid_params:-32602", "undecodable params are reported as InvalidParams", "invalid_params no longer uses ErrorCode::InvalidParams", "%s:%d" % (ip.file, ip.lo))
    # blocking task failure / unsupported subscriptions -> InternalError
    n = 0
    for pat, label in ((r"register_blocking_method::\{closure#0\}::\{closure#1\}$", "blocking-join-error"),):
        for b in F.find(pat):
            if b.crate != CORE:
                continue
            for c in b.calls_to(CTOR):
                n += 1
                # the error object may be spelled ErrorObject::from(code) or ErrorObject::owned(code.code(), ..): look through
                tr_e = ctx.tracer(follow_callers=False, follow_fields=False, extra_transparent=[(r"ErrorObject::<'.*>::(owned|borrowed)$", 0), (r"ErrorCode::code$", 0)])
                lv = tr_e.origins(b, c.args[1])
                ok = any(l.kind == "agg" and l.detail.get("variant") == "InternalError" for l in lv)
                R.check(ok, "C01.R5", label + ":-32603", "a failed blocking task is answered InternalError", "a failed blocking task is answered with %s" % [flow.leaf_str(l) for l in lv], where(c))
    R.floor("C01.R5.blocking", n, 1, "JoinError reply sites")
    rsc = F.one(RSC)
    ie = 0
    for c in rsc.calls_to(CTOR):
        lv = tr.origins(rsc, c.args[1])
        if any(l.kind == "agg" and l.detail.get("variant") == "InternalError" for l in lv):
            ie += 1
    R.check(ie >= 2, "C01.R5", "unsupported-subscription:-32603", "subscriptions on a calls-only service are answered InternalError", "the calls-only arms no longer answer InternalError (%d sites)" % ie, "%s:%d" % (rsc.file, rsc.lo))
    # error code table values
    tbl = F.one(r"^jsonrpsee_types::error::ErrorCode::code$")
    from ..interp import Interp, Enum, Ref, unit_variants

    it = Interp(F)
    want = {"ParseError": -32700, "InvalidRequest": -32600, "MethodNotFound": -32601, "InvalidParams": -32602, "InternalError": -32603}
    for vidx, vname, fields in unit_variants(F, "jsonrpsee_types::error::ErrorCode"):
        if vname in want:
            got = it.run(tbl, [Ref([Enum("jsonrpsee_types::error::ErrorCode", vidx, vname, [])])])
            R.check(got == want[vname], "C01.R5", "code:%s" % vname, "%s = %d" % (vname, want[vname]), "ErrorCode::%s has code %s, the standard says %d" % (vname, got, want[vname]), "%s:%d" % (tbl.file, tbl.lo))


def _sniffer(F, body, tr):
    """(window constant, predicate callee, start bytes) of a first-non-whitespace sniff in `body` (or None). The
    take(..).find(..) chain may sit in the body itself or in a crate-local helper it calls (one level)."""
    def scan(b):
        takes = [c for c in b.calls_to(r"^std::iter::Iterator::take$")]
        finds = [c for c in b.calls_to(r"^std::iter::Iterator::find$")]
        return takes, finds

    takes, finds = scan(body)
    src = body
    results = []  # locals of `body` holding the find result
    if takes and finds:
        results = [f.dest["l"] for f in finds]
    else:
        for c in body.calls:
            tgt = F.bodies.get(c.name() or "")
            if tgt is None or tgt.crate != body.crate or tgt.path == body.path:
                continue
            t2, f2 = scan(tgt)
            if t2 and f2 and c.dest is not None:
                takes, finds, src = t2, f2, tgt
                results = [c.dest["l"]]
                break
    if not takes or not finds:
        return None
    win = None
    for t in takes:
        k = op_const(t.args[1])
        if k and "int" in k:
            win = int(k["int"])
    pred = set()
    for f in finds:
        for lf in tr.origins(src, f.args[1]):
            if lf.kind == "closure":
                cb = F.bodies.get(lf.detail["def"])
                if cb is not None:
                    for c in cb.calls:
                        pred.add((c.name() or "").split("::")[-1])
                    neg = any(st["s"] == "assign" and st["rv"]["k"] == "un" and st["rv"]["op"] == "Not" for blk in cb.blocks for st in blk["st"])
                    pred.add("negated" if neg else "plain")
    starts = set()
    for r in results:
        holders = follow_value(body, r)
        for bi, blk in enumerate(body.blocks):
            t = blk["term"]
            if t and t["t"] == "switch":
                p = op_place(t["discr"])
                if p is not None and p["l"] in holders and any(isinstance(e, dict) and "f" in e for e in p.get("p", [])):
                    for v, _ in t["arms"]:
                        starts.add(int(v))
    return (win, tuple(sorted(pred)), tuple(sorted(starts)))


def r6_transport_agreement(ctx):
    F, R = ctx.F, ctx.R
    callers = sorted({fkey(c.body) for c in F.all_calls(r"server::handle_rpc_call$") if not is_test_body(c.body)})
    http_ok = [k for k in callers if re.match(r"jsonrpsee_server::transport::http::\w+::\{closure#0\}$", k)]
    ws_ok = [k for k in callers if re.match(WSTASK, k)]
    R.check(len(callers) == 2 and len(http_ok) == 1 and len(ws_ok) == 1, "C01.R6", "handle_rpc_call:callers", "handle_rpc_call is entered from the HTTP and the WS transport only", "handle_rpc_call is called from %s" % callers, None)
    # only handle_rpc_call drives RpcServiceT on transport input
    for c in F.all_calls(r"RpcServiceT::(call|batch|notification)$"):
        b = c.body
        if b.crate != SERVER or is_test_body(b):
            continue
        k = fkey(b)
        (sb_, _), (bb2_, _) = hrc_parts(F)
        okk = k.startswith("jsonrpsee_server::server::handle_rpc_call") or k in (fkey(sb_), fkey(bb2_)) or k.startswith("jsonrpsee_server::middleware::rpc::RpcService::batch")
        R.check(okk, "C01.R6", "service-driver:%s" % k, "RpcServiceT is driven from handle_rpc_call / RpcService::batch", "RpcServiceT::%s is called from %s, bypassing handle_rpc_call's classification" % (c.callee.split("::")[-1], k), where(c))
    tr = ctx.tracer(follow_callers=False, follow_fields=False)
    tasks = [b for b in F.find(WSTASK) if b.calls_to(r"server::handle_rpc_call$")]
    rb = F.one(r"^jsonrpsee_core::http_helpers::read_body::\{closure#0\}$")
    sn = {}
    if tasks:
        sn["ws"] = _sniffer(F, tasks[0], tr)
    sn["http"] = _sniffer(F, rb, tr)
    R.check(sn.get("ws") is not None and sn.get("http") is not None and sn["ws"] == sn["http"], "C01.R6", "sniffers-agree", "WS and HTTP prefix sniffers agree: %s" % (sn.get("ws"),), "the WS and HTTP prefix sniffers differ: ws=%s http=%s" % (sn.get("ws"), sn.get("http")), None)
    # the HTTP transport hands the *whole* body to handle_rpc_call (the WS transport hands the whole frame)
    read_body_loop_exits(F, R, "C01.R6", tr)
    for k, v in sn.items():
        if v is None:
            continue
        R.check(v[0] == 128, "C01.R6", "sniffer:%s:window" % k, "%s sniffing window is 128 bytes" % k, "%s sniffing window is %s bytes, documented window is 128 (127 bytes of leading whitespace)" % (k, v[0]), None)
        R.check("is_ascii_whitespace" in v[1] and "negated" in v[1], "C01.R6", "sniffer:%s:predicate" % k, "%s skips ASCII whitespace" % k, "%s sniffing predicate is %s" % (k, v[1]), None)
        R.check(v[2] == (91, 123), "C01.R6", "sniffer:%s:start-bytes" % k, "%s accepts `{` and `[`" % k, "%s start bytes are %s, expected (91, 123)" % (k, v[2]), None)


def r8_classifiers_are_plain(ctx):
    """Request / Notification / InvalidRequest are tried in turn: each must be the plain derived decoder"""
    from .common import wire_decoders_plain
    wire_decoders_plain(ctx, "C01.R8", (("Request", r"jsonrpsee_types::request::Request<'a>"), ("Notification", r"jsonrpsee_types::request::Notification<'a, T>"), ("InvalidRequest", r"jsonrpsee_types::request::InvalidRequest<'a>")), 3)


def r9_params_whitespace(ctx):
    """a valid request is answered with the handler's result for exactly its params, however the client spaces them:
    the positional decoder every generated handler uses tolerates whitespace around `,` and `]` (= C16.WS)"""
    from . import c16
    c16.rws_separator_sees_no_whitespace(ctx, "C01.R9")


def r10_not_found_iff_unbound(ctx):
    """-32601 exactly for an unknown method (= C13.R5)"""
    from . import c13
    c13.r5_not_found_iff_unbound(ctx, "C01.R10")


def r11_no_borrowed_wire_strings(ctx):
    """a request spelled with JSON escapes (e.g. "jsonrpc":"2\\u002e0") is the same request: no wire type deserialises a
    member as a borrowed &str / &[u8] (= C15.R7)"""
    from . import c15
    n = c15._borrowed_str_scan(ctx.F, ctx.R, r"^<?jsonrpsee_(types|core|server)::", "C01.R11")
    ctx.R.ok("C01.R11", "no-borrowed-str", "%d deserialisation sites inspected" % n)
    ctx.R.floor("C01.R11", n, 40, "deserialisation sites in types/core")


def r12_entry_points_agree(ctx):
    """the same message gets the same answer whichever way the server was assembled and over both transports: the
    high-level server and the low-level ws::connect / http::call_with_service_builder feed the shared machinery from the
    same settings (= C07.SIB)"""
    from .common import sibling_config_agreement
    from . import c07
    sibling_config_agreement(ctx, "C01.R12", c07.SIBLINGS, 6)


def _borrowed(modname, fname):
    """a rule of a neighbouring property whose violation also violates this one; it reports under its own rule id"""
    def run(ctx):
        import importlib
        mod = importlib.import_module("jrsa.rules." + modname)
        return getattr(mod, fname)(ctx)
    run.__name__ = "%s_%s" % (modname, fname)
    return run



def r15_http_answers_do_not_end_the_connection(ctx):
    """`the connection keeps serving later messages`: the server's own HTTP answers (also the 400 / -32700 for text that is
    not JSON) leave connection management to hyper - the response helpers set the content type and nothing else (a
    `Connection: close` on the error replies ends an HTTP/1.1 keep-alive connection, so the next message on it is never
    answered)."""
    F, R = ctx.F, ctx.R
    tr = ctx.tracer(follow_callers=False, follow_fields=False, inline_calls=False)
    n = 0
    for b in F.real_bodies():
        if b.crate != SERVER or is_test_body(b) or not re.search(r"^jsonrpsee_server::transport::http::", b.path):
            continue
        for c in b.calls_to(r"HeaderMap::<.*>::(insert|append|try_insert|try_append)$|response::Builder::header$"):
            n += 1
            R.fn(b)
            names = set()
            for a in c.args[1:2]:
                k = op_const(a)
                if k:
                    names.add(str(k.get("name") or k.get("str") or ""))
                for l in tr.origins(b, a):
                    if l.kind == "const":
                        names.add(str(l.detail.get("name") or l.detail.get("str") or ""))
            ok = bool(names) and all(re.search(r"(?i)content[-_]type$", x) for x in names)
            R.check(ok, "C01.R15", "%s:response-header:%s" % (fkey(b), "+".join(sorted(x.split("::")[-1] for x in names))[:40]), "the HTTP answers set Content-Type only", "%s sets the response header %s on the server's own answers: a `Connection: close` (or any connection-level header) on an error reply makes hyper drop the keep-alive connection, so the message that follows on it is never answered" % (short(b.path), sorted(names)), where(c))
    R.floor("C01.R15", n, 1, "header writes in transport::http")


def rids_wire_ids_derive_both(ctx):
    """`carrying its own id`: the id a reply echoes is the id the message carried only if ids are read and written by the
    derived, mirror-image impls (a hand-written reader that maps -1 to 18446744073709551615 also turns a message that
    must be rejected into a call)"""
    from .common import wire_ids_derive_both
    wire_ids_derive_both(ctx, "C01.IDS")


# "answered with the handler's result for exactly those params, or -32602": the params decoders (C16); "the standard error of
# its failure class" and "exactly one well-formed response object (jsonrpc, id, exactly one of result/error)": the code
# tables and the response serialiser (C15)
BORROWED = [_borrowed("c16", n) for n in ("r1_only_invalid_params", "r2_poison_on_error", "r3_exhaustion_table", "r4_absent_params", "rown_into_owned", "rnext_reads_T", "rone_is_one_array_parse")] + [_borrowed("c15", n) for n in ("r1_code_tables", "r2_serializer")] + [_borrowed("c04", "r10_lossy_sends_are_the_api_only")]
# "answered with the handler's result": a result that fits the configured response limit - including one of exactly that
# size - is not replaced by -32008 (the bounded writer's guard is the inclusive `size <= limit`) (= C08.R2)
BORROWED += [_borrowed("c08", "r2_bounded_writer")]
# every HTTP error reply is a response object (jsonrpc, id, error) (= C15.R10)
BORROWED += [_borrowed("c15", "r10_http_errors_keep_the_envelope")]


def r14_every_data_message_reaches_the_task(ctx):
    """every data message the WebSocket receives is handed to the per-message task - whatever its content (empty, all
    whitespace, not JSON: those are answered -32700 there): in try_recv the arm that binds a received `Incoming::Data(d)`
    returns `Receive::Ok(d, ..)` on every path, without looking at `d` and without going round the receive loop again; and
    the stream in front of it forwards every soketto Data frame as Incoming::Data."""
    F, R = ctx.F, ctx.R
    tr = ctx.tracer(follow_callers=False, follow_fields=False, inline_calls=False)
    b = F.one(r"^jsonrpsee_server::transport::ws::try_recv::\{closure#0\}$")
    R.fn(b)
    binds = []
    for bi, blk in enumerate(b.blocks):
        if blk.get("cleanup") or bi not in b.reachable:
            continue
        for st in blk["st"]:
            if st["s"] == "assign" and st["rv"]["k"] == "use":
                q = op_place(st["rv"]["op"])
                if q is None:
                    continue
                ds = [e for e in q.get("p", []) if isinstance(e, dict) and "d" in e]
                if ds and ds[-1]["d"] == "Data" and not st["pl"].get("p"):
                    binds.append((bi, st["pl"]["l"]))
    R.floor("C01.R14", len(binds), 1, "bindings of a received Incoming::Data payload in try_recv")
    oks = {bi for bi, blk in enumerate(b.blocks) for st in blk["st"] if st["s"] == "assign" and st["rv"]["k"] == "agg" and st["rv"].get("variant") == "Ok" and (st["rv"].get("adt") or "").endswith("ws::Receive")}
    waits = {c.bb for c in b.calls_to(r"future::select$|IntoFuture>?::into_future$")}
    exits = {bi for bi, blk in enumerate(b.blocks) if blk["term"] and blk["term"]["t"] == "return"}
    for bi, dl in binds:
        ok = bi in oks or flow.all_paths_pass(b, bi, oks, waits | exits)
        R.check(ok, "C01.R14", "try_recv:data-always-returned", "a received data message always leaves try_recv as Receive::Ok", "try_recv can drop a received data message and wait for the next one (a path from the Data arm reaches the next wait / another exit without building Receive::Ok): that message is never answered although every message - also an empty or non-JSON one - gets exactly one reply", "%s:%d" % (b.file, block_line(b, bi)))
        holders = follow_value(b, dl)
        looks = [c for c in b.calls if not c.exp and c.args and any(op_place(a) is not None and (op_place(a)["l"] in holders or (flow._local_copies_back(b, op_place(a)["l"], 4) & holders)) for a in c.args) and not re.search(r"^std::mem::drop$|drop_in_place", c.name() or "")]
        R.check(not looks, "C01.R14", "try_recv:data-not-inspected", "try_recv does not look at the payload", "try_recv inspects the received payload (%s) before handing it on: which messages reach the RPC layer depends on their content" % sorted({short(c.name()) for c in looks}), where(looks[0]) if looks else None)
        for o in oks:
            for st in b.blocks[o]["st"]:
                if st["s"] == "assign" and st["rv"]["k"] == "agg" and st["rv"].get("variant") == "Ok" and (st["rv"].get("adt") or "").endswith("ws::Receive"):
                    lv = tr.origins(b, st["rv"]["ops"][0])
                    R.check(any("Data" in " ".join(l.chain) for l in lv), "C01.R14", "try_recv:returns-the-payload", "Receive::Ok carries the received payload", "Receive::Ok does not carry the received payload", "%s:%d" % (b.file, st["sp"][0]))
    # the unfold stream in background_task: Data -> Incoming::Data(buffer), on every path of that arm
    st_b = [x for x in F.real_bodies() if x.crate == SERVER and not is_test_body(x) and x.path.startswith("jsonrpsee_server::transport::ws::") and x.calls_to(r"soketto::(connection::)?Receiver::<.*>::receive$")]
    if len(st_b) != 1:
        raise AnchorLost("the receive stream of ws::background_task (found %d)" % len(st_b))
    sb_ = st_b[0]
    R.fn(sb_)
    datas = [bi for bi, blk in enumerate(sb_.blocks) for st in blk["st"] if st["s"] == "assign" and st["rv"]["k"] == "agg" and st["rv"].get("variant") == "Data" and (st["rv"].get("adt") or "").endswith("ws::Incoming")]
    R.check(len(datas) >= 1, "C01.R14", "stream:forwards-data", "the receive stream yields Incoming::Data for data frames", "the receive stream never builds Incoming::Data", "%s:%d" % (sb_.file, sb_.lo))
    # ... and forwards them unseen: the adapter calls nothing but the receive itself (and what allocates its buffer /
    # converts its error). A frame that is looked at here (is it text? is it UTF-8? is it empty?) and turned into an error
    # or skipped never reaches the task that answers it - and the receive loop ends the connection on an error
    seen = [c for c in sb_.calls if not c.exp and not re.search(r"Receiver::<.*>::receive$|^std::vec::Vec::<.*>::(new|with_capacity)$|^<.* as std::convert::(From|Into)<.*>>::(from|into)$|^std::convert::(From|Into)::(from|into)$|^std::mem::drop$", c.name() or "")]
    R.check(not seen, "C01.R14", "stream:frames-forwarded-unseen", "the receive stream hands every frame on without looking at it", "the WebSocket receive stream examines the frame it received (%s): a message can be turned into a receive error or skipped there, so it is never answered (and a receive error closes the connection) although the same bytes over HTTP are answered -32700" % sorted({short(c.name()) for c in seen}), where(seen[0]) if seen else None)


def r13_subscription_kind_is_sent_by_its_creator(ctx):
    """the WebSocket task does not write `Subscription`-kind responses itself (the subscription machinery already wrote
    them to the connection): so such a response may only be created where it is also written - in
    PendingSubscriptionSink::accept / reject. Created anywhere else (a fallback arm answering with subscription_error) the
    call gets no reply at all."""
    F, R = ctx.F, ctx.R
    n = 0
    for c in F.all_calls(r"server::(method_response::)?MethodResponse::(subscription_error|subscription_response)$"):
        b = c.body
        if b.crate not in (CORE, SERVER) or is_test_body(b):
            continue
        n += 1
        ok_site = bool(re.search(r"^jsonrpsee_core::server::subscription::PendingSubscriptionSink::(accept|reject)(::\{closure#0\})?$", b.path))
        writes = bool(b.calls_to(r"MethodSink::send$"))
        R.check(ok_site and writes, "C01.R13", "subscription-kind:%s" % fkey(b), "a Subscription-kind response is created where it is written to the connection", "%s creates a Subscription-kind response (%s) but is not one of the places that also write it to the connection: the WebSocket task skips responses of that kind, so the call is never answered" % (short(b.path), (c.name() or "").split("::")[-1]), where(c))
    R.floor("C01.R13", n, 2, "Subscription-kind response constructions")


DESER_CTOR = r"^serde_json::Deserializer::<.*>::(from_slice|from_str|from_reader|new)$|^serde_json::de::Deserializer::<.*>::(from_slice|from_str|from_reader|new)$"
DESER_END = r"^serde_json::(de::)?Deserializer::<.*>::end$"
WRAPPERS = r"^jsonrpsee_server::utils::deserialize_with_ext::(call|notif)::(from_slice|from_str)$"


def _hand_driven_scan(F, R, crates):
    """every hand-driven serde_json::Deserializer must be asked `end()` on every non-error path: otherwise a value
    followed by trailing bytes is accepted where serde_json::from_slice/from_str answer a syntax error"""
    n = 0
    for b in F.real_bodies():
        if b.crate not in crates or is_test_body(b):
            continue
        ctors = b.calls_to(DESER_CTOR)
        if not ctors:
            continue
        ends = {c.bb for c in b.calls_to(DESER_END)}
        errs = {c.bb for c in b.calls_to(r"FromResidual.*::from_residual$")}
        # blocks that build an Err(..) result also count as error exits
        for bi, blk in enumerate(b.blocks):
            for st in blk["st"]:
                if st["s"] == "assign" and st["pl"]["l"] == 0 and st["rv"]["k"] == "agg" and st["rv"].get("variant") == "Err":
                    errs.add(bi)
        streams = b.calls_to(r"^serde_json::(de::)?Deserializer::<.*>::into_iter$")
        for i, c in enumerate(sorted(ctors, key=lambda x: x.bb)):
            # a StreamDeserializer (into_iter) is the documented way to read a *prefix*; its user tracks byte_offset()
            if any(arg_is_local(b, x.args[0], c.dest["l"]) for x in streams):
                continue
            n += 1
            ok = flow.all_paths_pass(b, c.bb, ends | errs)
            R.check(ok, "C01.R7", "%s:hand-driven-deserializer#%d" % (fkey(b), i), "the hand-driven Deserializer is asked end() on every success path", "%s drives a serde_json::Deserializer by hand and returns successfully without calling end(): a valid value followed by trailing bytes is accepted instead of being a syntax error" % short(b.path), where(c))
    return n


def r7_whole_message(ctx):
    """a message is decoded as a whole: the request/notification decoders take their value from serde_json::from_slice /
    from_str (which reject trailing bytes), and no hand-driven Deserializer skips the end-of-input check"""
    F, R = ctx.F, ctx.R
    tr = ctx.tracer(follow_callers=False, follow_fields=False, inline_calls=False)
    n = 0
    for b in F.find(WRAPPERS):
        R.fn(b)
        n += 1
        lv = []
        for blk in b.blocks:
            for st in blk["st"]:
                if st["s"] == "assign" and st["pl"]["l"] == 0 and not st["pl"].get("p") and st["rv"]["k"] == "agg" and st["rv"].get("variant") == "Ok":
                    lv += tr.origins(b, st["rv"]["ops"][0])
        if not lv:
            R.anchor_lost("C01.R7", "Ok(..) result of %s" % short(b.path))
            continue
        srcs = sorted({short(l.detail.get("callee") or "?") if l.kind == "call" else l.kind for l in lv if l.kind != "const"})
        strict = [l for l in lv if l.kind == "call" and re.search(r"^serde_json::(de::)?(from_slice|from_str)$", l.detail.get("callee") or "")]
        loose = [l for l in lv if l.kind == "call" and re.search(r"Deserialize(<'\w+>)?>?::deserialize$|Deserializer.*::deserialize_", l.detail.get("callee") or "")]
        hand_ok = bool(loose) and bool(b.calls_to(DESER_END))
        R.check(bool(strict) and not loose or hand_ok, "C01.R7", "%s:strict-decoder" % fkey(b), "the decoded message comes from serde_json::from_slice/from_str (whole input consumed)", "%s no longer decodes with serde_json::from_slice/from_str (value comes from %s): trailing bytes after a valid message are not rejected, so `{..}garbage` runs the handler instead of being answered -32700" % (short(b.path), srcs), "%s:%d" % (b.file, b.lo))
    R.floor("C01.R7", n, 4, "deserialize_with_ext decoders")
    _hand_driven_scan(F, R, (SERVER, CORE, "jsonrpsee_types"))


def control_hand_driven(ctx):
    from .common import control

    def run(r):
        _hand_driven_scan(ctx.F, r, ("verif_fixtures",))
        # the strict twin must not be reported
        for v in r.violations:
            if "decode_whole" in v["key"]:
                ctx.R.bad("C01.R7.control", "control:strict-twin-reported", "the rule reports the strict twin decode_whole (it calls end()): the rule is wrong")
    control(ctx, "C01.R7", "Deserializer::from_slice + deserialize without end()", run)


CONTROLS = [control_hand_driven]


LIB_RULES = [r1_id_echo, r1b_handler_args, r2_classify_once, r3_ws_reply_once, r4_invocation_authority, r5_failure_classes, r6_transport_agreement, r7_whole_message, r8_classifiers_are_plain, r9_params_whitespace, r10_not_found_iff_unbound, r11_no_borrowed_wire_strings, r12_entry_points_agree, r13_subscription_kind_is_sent_by_its_creator, r14_every_data_message_reaches_the_task, r15_http_answers_do_not_end_the_connection, rids_wire_ids_derive_both] + BORROWED


def rgen_generated_registrations(ctx):
    """`handler kind {sync, async, blocking, blocking-that-panics}`: what #[rpc(server)] registers is of the declared kind for
    every combination of attributes (a `blocking, with_extensions` method registered as a plain sync method runs on the
    connection's task: a panic in it is not turned into -32603 with the call's id - the call gets no reply) (= C17.W5 over
    the generated corpus)"""
    from . import c17
    return c17.w_rules(ctx)


def _only(cfgs, rule):
    def run(ctx):
        if ctx.config in cfgs:
            return rule(ctx)
    run.__name__ = rule.__name__
    return run


CONFIGS_QUICK = ["libs-all", "corpus"]
CONFIGS_THOROUGH = ["libs-all", "facade-full", "corpus"]
RULES = [_only(("libs-all", "facade-full"), r) for r in LIB_RULES] + [_only(("corpus",), rgen_generated_registrations)]


LEVEL_TEXT = (
    "Structural necessary conditions of the request/reply contract decided from the type-checked program for every "
    "constructor site, handler invocation and classification path: id echo provenance (including the panic arm no test "
    "triggers), exactly-one-outcome path counting, at-most-one connection write per message, who may invoke a handler, the "
    "failure-class constants and the agreement of the two transports' sniffers. Static analysis cannot decide JSON "
    "well-formedness for all byte strings or handler-result equality; those parts are not claimed."
)
LEVEL_NOTE = "Trusted: rustc MIR; serde_json; tokio. User middleware/handlers are outside the analysed program."
TECHNIQUE = "MIR origin tracing + path counting + who-may-call over callback slots + sibling cross-check"

//! Positive controls for zero-expected rules: every construct below MUST be reported by the rule named next to it,
//! on every run (the crate is compiled by the same driver in the same run). Nothing here is part of jsonrpsee.
#![allow(unused, clippy::all)]
use serde_json::value::RawValue;
use std::sync::Arc;
use tokio::sync::{OwnedSemaphorePermit, Semaphore};

/// forget-like calls (C06.R2 / C11.R3 scan)
pub fn leak_permit(sem: Arc<Semaphore>) {
	let permit: OwnedSemaphorePermit = sem.clone().try_acquire_owned().unwrap();
	std::mem::forget(permit);
	sem.add_permits(1);
	let again = sem.try_acquire_owned().unwrap();
	again.forget();
}

/// a permit cloned out of its owner (C11.R2 permit-not-cloned)
pub fn clone_permit(p: &Arc<OwnedSemaphorePermit>) -> Arc<OwnedSemaphorePermit> {
	p.clone()
}

/// wire JSON assembled with format! (C15.R6)
pub fn handmade_json(id: &str, method: &str) -> Box<RawValue> {
	let json = format!(r#"{{"jsonrpc":"2.0","method":"{method}","params":{{"subscription":"{id}"}}}}"#);
	RawValue::from_string(json).expect("valid json")
}

/// a hand-driven serde_json Deserializer that is never asked whether the input ended (C01.R7): trailing bytes after the
/// first value are silently accepted, unlike `serde_json::from_slice`
pub fn decode_prefix(data: &[u8]) -> Result<serde_json::Value, serde_json::Error> {
	use serde::Deserialize;
	let mut de = serde_json::Deserializer::from_slice(data);
	let v = serde_json::Value::deserialize(&mut de)?;
	Ok(v)
}

/// the strict twin of `decode_prefix`: must NOT be reported
pub fn decode_whole(data: &[u8]) -> Result<serde_json::Value, serde_json::Error> {
	use serde::Deserialize;
	let mut de = serde_json::Deserializer::from_slice(data);
	let v = serde_json::Value::deserialize(&mut de)?;
	de.end()?;
	Ok(v)
}

/// request ids ordered with `Id`'s derived `Ord` (C03.R7): numeric for `Id::Number` but lexicographic for `Id::Str`
/// ("10" < "8"), so a range of ids computed this way is wrong for string ids
pub fn id_span<'a>(ids: &'a [jsonrpsee_types::Id<'a>]) -> Option<(&'a jsonrpsee_types::Id<'a>, &'a jsonrpsee_types::Id<'a>)> {
	Some((ids.iter().min()?, ids.iter().max()?))
}

/// second shape of the same mistake: explicit comparison
pub fn id_before(a: &jsonrpsee_types::Id<'_>, b: &jsonrpsee_types::Id<'_>) -> bool {
	a < b
}

/// a std mutex locked again while its guard is alive (C09.R6 / double_lock_scan): blocks forever
pub fn relock(m: &std::sync::Mutex<Vec<u8>>) -> usize {
	let mut g = m.lock().expect("not poisoned");
	g.push(1);
	let n = m.lock().expect("not poisoned").len();
	n + g.len()
}

/// twin that must NOT be reported: the first guard is dropped before the second acquisition
pub fn lock_twice_sequentially(m: &std::sync::Mutex<Vec<u8>>) -> usize {
	let mut g = m.lock().expect("not poisoned");
	g.push(1);
	drop(g);
	m.lock().expect("not poisoned").len()
}

/// a wire string deserialised as a borrowed &str (C15.R7): fails on escaped spellings of the same string
pub struct Marker;
impl<'de> serde::Deserialize<'de> for Marker {
	fn deserialize<D: serde::Deserializer<'de>>(d: D) -> Result<Self, D::Error> {
		match <&str as serde::Deserialize>::deserialize(d)? {
			"2.0" => Ok(Marker),
			_ => Err(serde::de::Error::custom("bad marker")),
		}
	}
}

/// text cut at a fixed byte offset (C09.R8): panics inside a multi-byte character
pub fn head_of(msg: &str) -> &str {
	let (head, _rest) = msg.split_at(1024);
	head
}


/// C13.R9 control: a keep-or-overwrite entry operation on a name -> callback table.
pub enum MethodCallbackFixture {
    Sync(u8),
}

pub fn or_insert_control(table: &mut std::collections::HashMap<&'static str, MethodCallbackFixture>, name: &'static str) {
    table.entry(name).or_insert(MethodCallbackFixture::Sync(0));
}

/// C16.REJ control: a future polled once and dropped.
pub fn poll_once_control(rx: tokio::sync::oneshot::Receiver<u8>) -> Option<u8> {
    use futures_util::FutureExt;
    rx.now_or_never().and_then(|r| r.ok())
}

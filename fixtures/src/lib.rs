//! Positive controls for zero-expected rules: every construct below MUST be reported by the rule named next to it,
//! on every run (the crate is compiled by the same driver in the same run). Nothing here is part of jsonrpsee.
#![allow(unused, clippy::all)]
use serde_json::value::RawValue;
use std::sync::Arc;
use tokio::sync::{OwnedSemaphorePermit, Semaphore};

/// forget-like calls (C06.R2 / C11.R3 scan)
pub fn leak_permit(sem: Arc<Semaphore>) {
	let permit: OwnedSemaphorePermit = sem.clone().try_acquire_owned().unwrap();
	std::mem::forget(permit);
	sem.add_permits(1);
	let again = sem.try_acquire_owned().unwrap();
	again.forget();
}

/// a permit cloned out of its owner (C11.R2 permit-not-cloned)
pub fn clone_permit(p: &Arc<OwnedSemaphorePermit>) -> Arc<OwnedSemaphorePermit> {
	p.clone()
}

/// wire JSON assembled with format! (C15.R6)
pub fn handmade_json(id: &str, method: &str) -> Box<RawValue> {
	let json = format!(r#"{{"jsonrpc":"2.0","method":"{method}","params":{{"subscription":"{id}"}}}}"#);
	RawValue::from_string(json).expect("valid json")
}

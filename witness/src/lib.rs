//! Type-level witnesses: each `compile_fail,E0xxx` doctest is a program that would violate a property and must be
//! rejected by rustc with exactly that error; its compiling twin differs only in the offending line, so a witness whose
//! paths are merely wrong cannot pass. Run with `cargo +nightly test --doc` (error codes are honoured on nightly only).
#![allow(unused)]

/// C04: a pending (not yet accepted) subscription has no way to send a notification.
/// ```compile_fail,E0599
/// fn w(p: jsonrpsee_core::server::PendingSubscriptionSink, m: jsonrpsee_core::server::SubscriptionMessage) {
///     let _ = p.send(m);
/// }
/// ```
/// twin:
/// ```no_run
/// fn w(p: jsonrpsee_core::server::PendingSubscriptionSink, m: jsonrpsee_core::server::SubscriptionMessage) {
///     let _ = p.accept();
/// }
/// ```
pub struct C04PendingCannotSend;

/// C04: a `SubscriptionSink` cannot be constructed outside the crate (its fields are private), so the only way to get
/// one is `PendingSubscriptionSink::accept`.
/// ```compile_fail,E0451
/// fn w(s: jsonrpsee_core::server::SubscriptionSink) -> jsonrpsee_core::server::SubscriptionSink {
///     jsonrpsee_core::server::SubscriptionSink { method: "forged", ..s }
/// }
/// ```
/// twin:
/// ```no_run
/// fn w(s: jsonrpsee_core::server::SubscriptionSink) -> jsonrpsee_core::server::SubscriptionSink {
///     s.clone()
/// }
/// ```
pub struct C04SinkNotConstructible;

/// C13: the method table is not reachable without going through the checked API.
/// ```compile_fail,E0616
/// fn w(m: jsonrpsee_core::server::Methods) {
///     let _ = m.callbacks;
/// }
/// ```
/// twin:
/// ```no_run
/// fn w(m: jsonrpsee_core::server::Methods) {
///     let _ = m.method_names().count();
/// }
/// ```
pub struct C13TablePrivate;

/// C11 / C06: a `ConnectionState` cannot be created without an owned connection permit.
/// ```compile_fail,E0061
/// fn w(stop: jsonrpsee_server::StopHandle) -> jsonrpsee_server::ConnectionState {
///     jsonrpsee_server::ConnectionState::new(stop, 0)
/// }
/// ```
/// twin:
/// ```no_run
/// fn w(stop: jsonrpsee_server::StopHandle, permit: tokio::sync::OwnedSemaphorePermit) -> jsonrpsee_server::ConnectionState {
///     jsonrpsee_server::ConnectionState::new(stop, 0, permit)
/// }
/// ```
pub struct C11StateNeedsPermit;

/// C06: the subscription permit inside a pending sink is not accessible from outside (it cannot be taken out or leaked).
/// ```compile_fail,E0616
/// fn w(p: jsonrpsee_core::server::PendingSubscriptionSink) {
///     std::mem::forget(p.permit);
/// }
/// ```
/// twin:
/// ```no_run
/// fn w(p: jsonrpsee_core::server::PendingSubscriptionSink) {
///     let _ = p.subscription_id();
/// }
/// ```
pub struct C06PermitPrivate;

#!/bin/bash
# Offline setup: build the mirfacts driver and warm the dependency build used by every check.
set -e
cd "$(dirname "$0")"
export CARGO_NET_OFFLINE=true
(cd engine/mirfacts && cargo +nightly build --release --offline 2>&1 | tail -2)
python3 - <<'PY'
import sys
sys.path.insert(0, '.')
from jrsa import extract
for cfg in ('libs-all', 'corpus', 'pmcore', 'fixtures'):
    d, th = extract.ensure_facts(cfg, verbose=True)
    print("facts ready:", cfg, d)
PY

#!/bin/bash
# usage: tools/try_patch.sh <patch> <PID> [<PID>...]   : apply to /repo's (or $JRSA_REPO's) working tree, run checks, revert.
P=$1; shift
R=${JRSA_REPO:-/repo}
cd $R || exit 2
if [ -n "$(git status --porcelain --untracked-files=no)" ]; then echo "/repo not clean"; exit 2; fi
git apply "$P" || { echo "patch does not apply"; exit 3; }
for pid in "$@"; do (cd /verif && JRSA_EVIDENCE_DIR=/var/tmp/jrsa-scratch-evidence ./check $pid | tail -4); done
git checkout -- . 
git status --porcelain --untracked-files=no

#!/bin/bash
# Runs every check (default: quick tier) on /repo's current tree and reports a one-line verdict per property.
cd "$(dirname "$0")/.."
TIER=${1:-quick}
rc=0
for i in $(seq -w 1 20); do
  out=$(./check C$i --tier $TIER 2>&1); r=$?
  echo "$out" | grep -E "^C$i \[" 
  echo "$out" | grep -E "^VIOLATION" | head -5
  [ $r -ne 0 ] && rc=1
done
exit $rc

#!/bin/bash
# Runs the repository's pinned baseline suite (guard OFF; there are no hooks) and compares with BASELINE.json.
# usage: tools/run_baseline.sh [repo_dir]
REPO=${1:-/repo}
cd "$REPO" || exit 2
export CARGO_NET_OFFLINE=true
LOG=$(mktemp /var/tmp/baseline.XXXXXX.log)
if [ -f /w/lib/nextest.toml ] && command -v cargo-nextest >/dev/null; then
  cargo nextest run --workspace --no-fail-fast --tool-config-file pb:/w/lib/nextest.toml --profile pb --test-threads 8 --offline >"$LOG" 2>&1
  JUNIT="$REPO/target/nextest/pb/junit.xml"
  [ -n "$CARGO_TARGET_DIR" ] && JUNIT="$CARGO_TARGET_DIR/nextest/pb/junit.xml"
  python3 - "$JUNIT" <<'PY'
import sys, json, xml.etree.ElementTree as ET
base = json.load(open('/root/.vp/BASELINE.json'))
want = set(base['stable_pass'])
t = ET.parse(sys.argv[1]).getroot()
passed=set(); failed=set()
for ts in t.iter('testsuite'):
    for tc in ts.iter('testcase'):
        name = ts.get('name').split('::')[0] + '::' + tc.get('name')
        # nextest junit: testsuite name = binary id (e.g. jsonrpsee-core or jsonrpsee-integration-tests::integration_tests)
        full = ts.get('name') + '::' + tc.get('name')
        bad = any(c.tag in ('failure','error') for c in tc)
        (failed if bad else passed).add(full)
missing = sorted(want - passed)
print("baseline: %d/%d stable tests passed; failed-in-run=%d" % (len(want & passed), len(want), len(failed)))
for m in missing[:40]: print("  NOT PASSED:", m)
extra_failed = sorted(f for f in failed if f in want)
sys.exit(0 if not missing else 1)
PY
  rc=$?
else
  cargo test --workspace --no-fail-fast --offline >"$LOG" 2>&1; rc=$?
fi
echo "log: $LOG"
exit $rc

#!/usr/bin/env python3
"""Regenerates /verif/MANIFEST.json from the rule modules' metadata."""
import importlib, json, os, sys
HERE = os.path.dirname(os.path.dirname(os.path.abspath(__file__)))
sys.path.insert(0, HERE)
props = [json.loads(l) for l in open(os.path.join(HERE, 'properties.jsonl'))]
checks, na = [], []
for p in props:
    pid = p['id']
    try:
        mod = importlib.import_module('jrsa.rules.%s' % pid.lower())
    except ImportError:
        mod = None
    if mod is None or not getattr(mod, 'CLAIMED', True):
        na.append({"property_id": pid, "reason": getattr(mod, 'NA_REASON', "no static check built yet for this property (see DESIGN.md section 2 for the planned clauses)")})
        continue
    checks.append({
        "property_id": pid,
        "quick_cmd": "./check %s --tier quick" % pid,
        "thorough_cmd": "./check %s --tier thorough" % pid,
        "evidence_file": "/verif/evidence/%s.json" % pid,
        "replay_cmd_template": "./check %s --replay {path}" % pid,
        "engine": "mirfacts+jrsa",
        "level_claimed": {
            "category": getattr(mod, 'LEVEL', 'other'),
            "text": mod.LEVEL_TEXT,
            "design_ref": "DESIGN.md section 2, %s" % pid,
        },
        "level_note": mod.LEVEL_NOTE,
        "technique": mod.TECHNIQUE,
    })
m = {
    "version": 1,
    "setup_cmd": "./setup.sh",
    "hooks": {
        "guard": "paritytech_jsonrpsee_verif",
        "enable": "none needed: the analysis reads the unmodified sources (no hooks, no instrumentation); the guard name is reserved and unused",
        "baseline_off_cmd": "cd /repo && cargo nextest run --workspace --no-fail-fast --tool-config-file pb:/w/lib/nextest.toml --profile pb --test-threads 8 --offline",
        "source_commits": [],
        "add_only": True,
    },
    "engines": [
        {"name": "mirfacts", "path": "engine/mirfacts", "serves_properties": [c["property_id"] for c in checks],
         "kind_free_text": "rustc_private driver (nightly) injected as RUSTC_WORKSPACE_WRAPPER under cargo check; dumps pre-borrowck MIR (mir_built) with resolved callees, field names, constants, spans, ADTs and impls as JSON; nothing of the analysed crates is executed"},
        {"name": "jrsa", "path": "jrsa", "serves_properties": [c["property_id"] for c in checks],
         "kind_free_text": "python3 analyses over the MIR facts: CFG/dominators, field-sensitive inter-procedural origin tracing, path counting, decision tables; one rule module per property (jrsa/rules/cNN.py)"},
    ],
    "checks": checks,
    "not_applicable": na,
    "notes": "Technique family: static analysis only. Every check re-extracts facts from /repo's current working tree (keyed by a content hash) and reports a specific construct. Each claim is a set of named structural clauses that are necessary conditions of the property, not the behavioural property as a whole; see DESIGN.md.",
}
json.dump(m, open(os.path.join(HERE, 'MANIFEST.json'), 'w'), indent=1)
print("wrote MANIFEST.json: %d checks, %d not_applicable" % (len(checks), len(na)))

#!/usr/bin/env python3
"""prints the prompt for a seeding sub-agent: property text + worktree only (nothing from /verif)."""
import json, sys
pid = sys.argv[1]
wt = sys.argv[2]
out = sys.argv[3]
p = None
for l in open('/verif/properties.jsonl'):
    d = json.loads(l)
    if d['id'] == pid: p = d
print(f"""You are helping evaluate verification tooling for the Rust library paritytech/jsonrpsee (async JSON-RPC 2.0 client and server over HTTP and WebSocket). You have your own scratch git worktree of the repository at {wt} (work ONLY there; never touch /repo or /verif, and do not read anything under /verif). The sandbox is offline: always pass --offline to cargo, nothing can be downloaded.

Here is a semantic property the library is supposed to satisfy:

  Title: {p['title']}
  Statement: {p['statement']}
  Quantified over: {p['quantifier']['text']}

Your task: produce TWO independent, realistic source changes to the library (different mechanisms / different code sites; each the kind of slip a maintainer could plausibly make in a refactor or "optimisation"), each of which BREAKS this property while
  (a) the workspace still compiles, and
  (b) the repository's existing test suite still passes (see command below), and
  (c) the breakage needs something specific to manifest - a particular interleaving, a fault at a particular point, a multi-step sequence of operations, an unusual input or configuration, or two cooperating sites that each look fine alone - i.e. NOT something ordinary use or the existing tests would expose at once.
Changes must be to library source (crates core/, server/, types/, client/*, proc-macros/), not to tests. Keep each change small (a few lines to ~30 lines). Do not just delete a feature wholesale.

For each change also write a demonstration: a Rust integration test file or small program that FAILS (assertion failure / panic / wrong output) with the change applied and PASSES on the unmodified tree. The simplest way is a new test file added under {wt}/tests/tests/ (the `jsonrpsee-integration-tests` crate; see existing files and helpers there) or under a crate's own tests, run with e.g. `cargo test --offline -p jsonrpsee-integration-tests --test <name>`. The demo file is NOT part of the patch.

Build/test environment: before any cargo command run `export CARGO_INCREMENTAL=0 CARGO_PROFILE_DEV_DEBUG=0 CARGO_PROFILE_TEST_DEBUG=0 CARGO_NET_OFFLINE=true` (disk is limited). The existing suite is: `cd {wt} && cargo nextest run --workspace --no-fail-fast --offline --test-threads 8` (if cargo-nextest misbehaves use `cargo test --workspace --no-fail-fast --offline`). On the unmodified tree exactly two tests fail because there is no network: integration_tests::https_works and integration_tests::wss_works - ignore those two; everything else must pass with your change. Other agents share this machine's 16 cores, so builds may be slow; be patient and do not start many parallel cargo builds.

Deliverables, written to {out}/ (create it): for change k in 1,2:
  {out}/change<k>/patch.diff     - `git diff` of the library change only (must apply with `git apply` to a clean checkout of the worktree's HEAD)
  {out}/change<k>/demo.rs         - the demonstration test/program (plus a note of where it must be placed and the exact command to run it)
  {out}/change<k>/README.md       - what the change is, which sentence of the property it breaks, what is needed for it to manifest, the commands you ran and their observed outcome (demo fails with the patch, passes without; full suite passes with the patch)
Verify all of this yourself before finishing: (1) demo passes on the clean tree, (2) demo fails with the patch, (3) the full existing suite passes with the patch (except the two known network failures). When done, leave the worktree clean of the patch (git checkout -- . ; demo files may stay) and reply with a short summary of the two changes. If after a serious effort you can only produce one good change, deliver one and say so.""")

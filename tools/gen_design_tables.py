#!/usr/bin/env python3
"""Rewrites the generated section of DESIGN.md (between the GENERATED markers) from seeded/*/meta.json and
selftest_results.json."""
import glob, json, os, re
V = os.path.dirname(os.path.dirname(os.path.abspath(__file__)))
rows = []
for d in sorted(glob.glob(os.path.join(V, "seeded", "*"))):
    mp = os.path.join(d, "meta.json")
    if not os.path.exists(mp):
        continue
    m = json.load(open(mp))
    readme = open(os.path.join(d, "README.md")).read() if os.path.exists(os.path.join(d, "README.md")) else ""
    title = ""
    for line in readme.splitlines():
        if line.strip().startswith("#"):
            title = line.strip("# ").strip()
            break
    title = m.get("summary") or title
    det = "; ".join("%s: %s" % (x["check"], ", ".join(re.sub(r"_jsonrpsee\S*?_(?=[a-z-]+$)", "…", v)[:70] for v in x["violations"][:2])) for x in m["detected_by"]) or "**not detected**"
    rows.append("| %s | %s | %s |" % (m["id"], title[:150].replace("|", "/"), det.replace("|", "/")))
st = json.load(open(os.path.join(V, "selftest_results.json"))) if os.path.exists(os.path.join(V, "selftest_results.json")) else None
out = ["<!-- GENERATED:BEGIN (tools/gen_design_tables.py) -->", "",
       "### 7.1 Seeded changes (independent sub-agents; each confirmed by me in a scratch worktree: demo passes on the clean",
       "tree, fails with the patch, the existing suite passes with the patch) and the checks that catch them", "",
       "| id | change | caught by (check: violated obligations) |", "|---|---|---|"] + rows + [""]
if st:
    mut = [r for r in st["results"] if r["kind"] == "mutant"]
    out += ["### 7.2 Self-test (`tools/selftest.py`, run at /repo %s)" % st["repo_head"], "",
            "%d / %d patches are reported (every mutant of `mutants/` - %d single-site edits and the reverts of the fix commits - and every seeded change); the clean tree is quiet (%s)." % (st["killed"], st["total"], len(mut), "all 20 checks exit 0" if not st["clean_tree_alarms"] else "ALARMS " + str(st["clean_tree_alarms"])), "",
            "| mutant | first violated obligation |", "|---|---|"]
    for r in mut:
        out.append("| %s | %s |" % (r["name"], (r["violations"][0][:90] if r.get("violations") else ("does not apply" if not r["applies"] else "MISSED"))))
    out.append("")
    ben = st.get("benign") or []
    if ben:
        desc = {}
        for f in glob.glob(os.path.join(V, "benign", "*.patch")):
            n = os.path.basename(f)[:-6]
            files = sorted(set(re.findall(r"^\+\+\+ b/(\S+)", open(f).read(), re.M)))
            desc[n] = ", ".join(files)
        out += ["### 7.3 Behaviour-preserving edits (`benign/*.patch`): all 20 checks must stay quiet", "",
                "Each patch compiles, leaves behaviour unchanged (renames, helper extraction, added log lines, control-flow",
                "restructuring, equivalent API choices) and touches exactly the constructs the rules anchor on. `tools/selftest.py`",
                "applies each and runs all twenty quick checks; any non-zero exit is a false alarm of the machinery.", "",
                "Two sources. (a) 44 patches written while building, each aimed at the constructs the rules anchor on. (b) 144 patches",
                "from twenty sub-agents (four batches) that were given a scratch worktree, one area of the code each and the",
                "instruction to produce realistic behaviour-preserving pull requests - extract function / method, closure <-> named fn,",
                "free fn <-> method, renames of private items, parameters bundled into new structs, enum variants renamed, `?` <->",
                "`match`, loops <-> iterator adaptors, harmless additions - and nothing about the checks. Each compiled and passed the",
                "suite. On the first batch of 24 most extraction refactors and every rename of a private anchor raised an alarm: the",
                "rules were right about the code they looked at and looked in the wrong place. That produced §1.3b (names are mapped",
                "back, unknown helpers are analysed inside their callers, their return values are threaded to the caller's `match`)",
                "and a list of rule repairs (structural instead of positional identification of the subscription callback's two",
                "futures and of the connection task; `!= POST` and table-driven `is_json`; `last_mut()` as an emptiness test;",
                "`then_some` / `filter` / `flatten` in the decision-table interpreter; error codes traced through locals; results",
                "returned as tail expressions; nested closures in `SubscriptionSender::send`; a `map` closure as the batch-entry",
                "classifier; ...). After that 45 of the first 48 are quiet on all twenty checks; the remaining three are kept in",
                "`benign_limits/` with the reason each alarm is a false one and why the rule cannot see it. The third batch (48 small",
                "patches) was quiet on 45 as delivered and on all 48 after three rule repairs (§2c, eleventh round); the fourth batch",
                "(48 small patches: renames of private items, idiom modernisation, small extractions / inlinings, lint clean-ups; run",
                "last) on 47 as delivered and on all 48 after one (a helper that merges the two refusal branches of a subscribe call).",
                "`benign/ind*` holds the 141.", "",
                "| patch | files touched | result |", "|---|---|---|"]
        for b in ben:
            out.append("| %s | %s | %s |" % (b["name"], desc.get(b["name"], ""), "does not apply" if not b.get("applies") else ("quiet" if not b.get("alarms") else "FALSE ALARM " + ",".join(b["alarms"]))))
        out.append("")
out.append("<!-- GENERATED:END -->")
p = os.path.join(V, "DESIGN.md")
s = open(p).read()
block = "\n".join(out)
if "<!-- GENERATED:BEGIN" in s:
    s = re.sub(r"<!-- GENERATED:BEGIN.*?<!-- GENERATED:END -->", lambda _: block, s, flags=re.S)
else:
    marker = "## 5. Build order"
    sec = "## 7. Testing the machinery both ways\n\nFresh sub-agents were given only the text of one property and a scratch git worktree of /repo (nothing from /verif) and\nasked for changes that break the property, still compile and pass the existing suite, and need something specific to\nmanifest, each with a demonstration. Every change below was then confirmed by me (`tools/confirm_seed.sh`): the demo passes on\nthe clean tree, fails with the patch, and the existing suite passes with the patch (281 passed, the 2 network tests fail as in the\nbaseline). Where a check missed a change on first contact the check was strengthened (see §2b: most `plus:` items there come\nfrom a seeded change); the table records what catches each change now. A second round of agents was told what the first round had\nproduced and asked for changes differing in site and mechanism.\n\n" + block + "\n\n---------------------------------------------------------------------------------------------------\n\n"
    s = s.replace(marker, sec + marker, 1)
open(p, "w").write(s)
print("DESIGN.md tables regenerated: %d seeded rows" % len(rows))

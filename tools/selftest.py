#!/usr/bin/env python3
"""Both-ways self-test: every mutant (mutants/*.patch: single-site edits and reverts of the fix commits) and every
confirmed seeded change (seeded/*/patch.diff) is applied to /repo's working tree (must be clean), the check of its
property is run and must report a violation; the tree is restored afterwards. Writes selftest_results.json."""
import glob, json, os, re, subprocess, sys, time

VERIF = os.path.dirname(os.path.dirname(os.path.abspath(__file__)))


def sh(cmd, cwd=None):
    env = dict(os.environ, JRSA_EVIDENCE_DIR="/var/tmp/jrsa-scratch-evidence")
    return subprocess.run(cmd, shell=True, cwd=cwd, capture_output=True, text=True, env=env)


def main():
    only = sys.argv[1:]
    assert sh("git status --porcelain --untracked-files=no", "/repo").stdout.strip() == "", "/repo not clean"
    items = []
    for p in sorted(glob.glob(os.path.join(VERIF, "mutants", "*.patch"))):
        name = os.path.basename(p)[:-6]
        items.append((name, name.split("-")[0], p, "mutant"))
    for d in sorted(glob.glob(os.path.join(VERIF, "seeded", "*"))):
        name = os.path.basename(d)
        if os.path.exists(os.path.join(d, "patch.diff")):
            items.append((name, name.split("-")[0], os.path.join(d, "patch.diff"), "seeded"))
    res = []
    for name, pid, patch, kind in items:
        if only and name not in only and pid not in only:
            continue
        t0 = time.time()
        r = sh("git apply %s" % patch, "/repo")
        if r.returncode != 0:
            res.append({"name": name, "kind": kind, "property": pid, "applies": False, "killed": None})
            print("%-50s does not apply" % name)
            continue
        try:
            o = sh("./check %s --tier quick" % pid, VERIF)
        finally:
            sh("git checkout -- .", "/repo")
        viol = re.findall(r"^VIOLATION property=\S+ replay=.*/%s-(.*)\.json$" % pid, o.stdout, re.M)
        msgs = [l for l in o.stdout.splitlines() if re.match(r"^\S*:\d+\s+C\d\d\.|^-\s+\S+", l)]
        killed = o.returncode == 1 and bool(viol)
        res.append({"name": name, "kind": kind, "property": pid, "applies": True, "killed": killed, "violations": viol[:6], "first_message": (msgs[0][:300] if msgs else None), "wall_s": round(time.time() - t0, 1)})
        print("%-50s %s  %s" % (name, "KILLED " if killed else "MISSED ", (viol[0] if viol else "")[:90]))
    # behaviour-preserving edits (benign/*.patch: renames, refactors) must leave every check quiet
    benign = []
    for p in sorted(glob.glob(os.path.join(VERIF, "benign", "*.patch"))):
        name = os.path.basename(p)[:-6]
        if only and name not in only and "benign" not in only:
            continue
        r = sh("git apply %s" % p, "/repo")
        if r.returncode != 0:
            benign.append({"name": name, "applies": False})
            print("%-50s does not apply" % name)
            continue
        alarms = []
        try:
            for i in range(1, 21):
                o = sh("./check C%02d --tier quick" % i, VERIF)
                if o.returncode != 0:
                    alarms.append("C%02d" % i)
        finally:
            sh("git checkout -- .", "/repo")
        benign.append({"name": name, "applies": True, "alarms": alarms})
        print("%-50s %s" % ("benign/" + name, "QUIET" if not alarms else "FALSE ALARM %s" % alarms))
    # the clean tree must be quiet
    if not only:
        quiet = []
        for i in range(1, 21):
            o = sh("./check C%02d --tier quick" % i, VERIF)
            if o.returncode != 0:
                quiet.append("C%02d" % i)
        print("clean tree: %s" % ("all 20 checks exit 0" if not quiet else "ALARMS: %s" % quiet))
        json.dump({"repo_head": sh("git rev-parse --short HEAD", "/repo").stdout.strip(), "results": res, "benign": benign, "clean_tree_alarms": quiet,
                   "killed": sum(1 for r in res if r["killed"]), "total": sum(1 for r in res if r["applies"])}, open(os.path.join(VERIF, "selftest_results.json"), "w"), indent=1)
    k = sum(1 for r in res if r["killed"])
    print("killed %d / %d" % (k, sum(1 for r in res if r["applies"])))


main()

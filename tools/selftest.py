#!/usr/bin/env python3
"""Both-ways self-test: every mutant (mutants/*.patch: single-site edits and reverts of the fix commits) and every
confirmed seeded change (seeded/*/patch.diff) is applied to /repo's working tree (must be clean), the check of its
property is run and must report a violation; the tree is restored afterwards. Writes selftest_results.json.

The work can be split over several checkouts of the repository that run side by side (the checks read the tree named by
JRSA_REPO): `SELFTEST_REPO=<worktree> SELFTEST_SHARD=i/n SELFTEST_OUT=<file> tools/selftest.py` does every n-th item on
that worktree and writes a partial result; `tools/selftest.py --merge <file>..` joins the parts, checks the clean tree and
writes selftest_results.json."""
import glob, json, os, re, subprocess, sys, time

VERIF = os.path.dirname(os.path.dirname(os.path.abspath(__file__)))
REPO = os.environ.get("SELFTEST_REPO", "/repo")
SHARD = os.environ.get("SELFTEST_SHARD")
OUT = os.environ.get("SELFTEST_OUT")


def sh(cmd, cwd=None):
    env = dict(os.environ, JRSA_EVIDENCE_DIR="/var/tmp/jrsa-scratch-evidence" + ("-" + SHARD.replace("/", "of") if SHARD else ""), JRSA_REPO=REPO)
    return subprocess.run(cmd, shell=True, cwd=cwd, capture_output=True, text=True, env=env)


def finish(res, benign):
    quiet = []
    for i in range(1, 21):
        o = sh("./check C%02d --tier quick" % i, VERIF)
        if o.returncode != 0:
            quiet.append("C%02d" % i)
    print("clean tree: %s" % ("all 20 checks exit 0" if not quiet else "ALARMS: %s" % quiet))
    json.dump({"repo_head": sh("git rev-parse --short HEAD", REPO).stdout.strip(), "results": res, "benign": benign, "clean_tree_alarms": quiet,
               "killed": sum(1 for r in res if r["killed"]), "total": sum(1 for r in res if r["applies"])}, open(os.path.join(VERIF, "selftest_results.json"), "w"), indent=1)


def main():
    if sys.argv[1:2] == ["--merge"]:
        res, benign = [], []
        for f in sys.argv[2:]:
            d = json.load(open(f))
            res += d["results"]
            benign += d["benign"]
        res.sort(key=lambda r: (r["kind"] != "mutant", r["name"]))
        benign.sort(key=lambda r: r["name"])
        finish(res, benign)
        print("killed %d / %d; benign quiet %d / %d" % (sum(1 for r in res if r["killed"]), sum(1 for r in res if r["applies"]), sum(1 for b in benign if b.get("applies") and not b.get("alarms")), len(benign)))
        for r in res:
            if r["applies"] and not r["killed"]:
                print("MISSED", r["name"])
        for b in benign:
            if b.get("alarms"):
                print("FALSE ALARM", b["name"], b["alarms"])
        return
    only = sys.argv[1:]
    shard = tuple(int(x) for x in SHARD.split("/")) if SHARD else None
    assert sh("git status --porcelain --untracked-files=no", REPO).stdout.strip() == "", "/repo not clean"
    items = []
    for p in sorted(glob.glob(os.path.join(VERIF, "mutants", "*.patch"))):
        name = os.path.basename(p)[:-6]
        items.append((name, name.split("-")[0], p, "mutant"))
    for d in sorted(glob.glob(os.path.join(VERIF, "seeded", "*"))):
        name = os.path.basename(d)
        if os.path.exists(os.path.join(d, "patch.diff")):
            items.append((name, name.split("-")[0], os.path.join(d, "patch.diff"), "seeded"))
    res = []
    for idx, (name, pid, patch, kind) in enumerate(items):
        if only and name not in only and pid not in only:
            continue
        if shard and idx % shard[1] != shard[0]:
            continue
        t0 = time.time()
        r = sh("git apply %s" % patch, REPO)
        if r.returncode != 0:
            res.append({"name": name, "kind": kind, "property": pid, "applies": False, "killed": None})
            print("%-50s does not apply" % name)
            continue
        try:
            o = sh("./check %s --tier quick" % pid, VERIF)
        finally:
            sh("git checkout -- .", REPO)
        viol = re.findall(r"^VIOLATION property=\S+ replay=.*/%s-(.*)\.json$" % pid, o.stdout, re.M)
        msgs = [l for l in o.stdout.splitlines() if re.match(r"^\S*:\d+\s+C\d\d\.|^-\s+\S+", l)]
        killed = o.returncode == 1 and bool(viol)
        res.append({"name": name, "kind": kind, "property": pid, "applies": True, "killed": killed, "violations": viol[:6], "first_message": (msgs[0][:300] if msgs else None), "wall_s": round(time.time() - t0, 1)})
        print("%-50s %s  %s" % (name, "KILLED " if killed else "MISSED ", (viol[0] if viol else "")[:90]))
    # behaviour-preserving edits (benign/*.patch: renames, refactors) must leave every check quiet
    benign = []
    for idx, p in enumerate(sorted(glob.glob(os.path.join(VERIF, "benign", "*.patch")))):
        name = os.path.basename(p)[:-6]
        if only and name not in only and "benign" not in only:
            continue
        if shard and idx % shard[1] != shard[0]:
            continue
        r = sh("git apply %s" % p, REPO)
        if r.returncode != 0:
            benign.append({"name": name, "applies": False})
            print("%-50s does not apply" % name)
            continue
        alarms = []
        try:
            for i in range(1, 21):
                o = sh("./check C%02d --tier quick" % i, VERIF)
                if o.returncode != 0:
                    alarms.append("C%02d" % i)
        finally:
            sh("git checkout -- .", REPO)
        benign.append({"name": name, "applies": True, "alarms": alarms})
        print("%-50s %s" % ("benign/" + name, "QUIET" if not alarms else "FALSE ALARM %s" % alarms))
    if OUT:
        json.dump({"results": res, "benign": benign}, open(OUT, "w"), indent=1)
    elif not only:
        finish(res, benign)
    k = sum(1 for r in res if r["killed"])
    print("killed %d / %d" % (k, sum(1 for r in res if r["applies"])))


main()

#!/usr/bin/env python3
"""Generates /verif/mutants/<PID>-<name>.patch from single-site edits (old -> new) against /repo HEAD, in a scratch
worktree; keeps a mutant only if the workspace still compiles (`cargo check`)."""
import os, subprocess, sys

VERIF = os.path.dirname(os.path.dirname(os.path.abspath(__file__)))
WT = "/tmp/wt-mut"

M = [
 # (pid, name, file, old, new)
 ("C01", "notif-before-request", "server/src/server.rs",
  "		if let Ok(req) = deserialize_with_ext::call::from_slice(body, &extensions) {\n			rpc_service.call(req).await\n		} else if let Ok(notif) = deserialize_with_ext::notif::from_slice::<Notif>(body, &extensions) {\n			rpc_service.notification(notif).await\n		} else {",
  "		if let Ok(notif) = deserialize_with_ext::notif::from_slice::<Notif>(body, &extensions) {\n			rpc_service.notification(notif).await\n		} else if let Ok(req) = deserialize_with_ext::call::from_slice(body, &extensions) {\n			rpc_service.call(req).await\n		} else {"),
 ("C01", "ws-replies-to-subscription-kind", "server/src/transport/ws.rs", "if rp.is_method_call() || rp.is_batch() {", "if rp.is_method_call() || rp.is_batch() || rp.is_subscription() {"),
 ("C01", "sniffer-window-64", "server/src/transport/ws.rs", "data.iter().enumerate().take(128)", "data.iter().enumerate().take(64)"),
 ("C01", "prepare-error-codes-swapped", "core/src/server/helpers.rs", "Ok(InvalidRequest { id }) => (id, ErrorCode::InvalidRequest),\n		Err(_) => (Id::Null, ErrorCode::ParseError),", "Ok(InvalidRequest { id }) => (id, ErrorCode::ParseError),\n		Err(_) => (Id::Null, ErrorCode::InvalidRequest),"),
 ("C01", "method-not-found-null-id", "server/src/middleware/rpc.rs", "MethodResponse::error(id, ErrorObject::from(ErrorCode::MethodNotFound)).with_extensions(extensions);", "MethodResponse::error(Id::Null, ErrorObject::from(ErrorCode::MethodNotFound)).with_extensions(extensions);"),
 ("C02", "limit-ge", "server/src/server.rs", "if unchecked_batch.len() > max_len {", "if unchecked_batch.len() >= max_len {"),
 ("C02", "err-entry-not-appended", "server/src/middleware/rpc.rs", "						let rp = MethodResponse::error(id, err);\n						if let Err(err) = batch_rp.append(rp) {\n							return err;\n						}", "						let _rp = MethodResponse::error(id, err);"),
 ("C02", "all-notifications-answered", "server/src/middleware/rpc.rs", "if batch_rp.is_empty() && got_notification {", "if batch_rp.is_empty() && !got_notification {"),
 ("C03", "key-from-unsub-id", "core/src/client/async_client/helpers.rs", "if manager\n				.insert_subscription(\n					response_id.clone(),", "if manager\n				.insert_subscription(\n					unsub_id.clone(),"),
 ("C03", "id-load-store", "core/src/client/mod.rs", "self.0\n			.fetch_add(n, Ordering::Relaxed)", "{ let v = self.0.load(Ordering::Relaxed); self.0.store(v.wrapping_add(n), Ordering::Relaxed); v }"),
 ("C04", "try-send-no-closed-check", "core/src/server/subscription.rs", "		if self.is_closed() {\n			return Err(TrySendError::Closed(msg));\n		}\n", ""),
 ("C04", "notification-with-connection-id", "core/src/server/subscription.rs", "let json = sub_message_to_json(msg, &self.uniq_sub.sub_id, self.method);\n		self.inner.try_send(json)", "let json = sub_message_to_json(msg, &self.uniq_sub.sub_id, \"notif\");\n		self.inner.try_send(json)"),
 ("C05", "too-slow-returns-none", "core/src/client/async_client/helpers.rs", "				tracing::debug!(target: LOG_TARGET, \"Subscription {{method={}, sub_id={:?}}} couldn't keep up with server; failed to send {m}\", response.method, sub_id);\n				Some(sub_id)", "				tracing::debug!(target: LOG_TARGET, \"Subscription {{method={}, sub_id={:?}}} couldn't keep up with server; failed to send {m}\", response.method, sub_id);\n				None"),
 ("C05", "drop-without-try-send", "core/src/client/mod.rs", "		let _ = self.to_back.try_send(msg);\n	}\n}", "		drop(msg);\n	}\n}"),
 ("C06", "handler-before-acquire", "server/src/middleware/rpc.rs", "if let Some(p) = bounded_subscriptions.acquire() {", "if let Some(p) = Some(mock_permit()).or_else(|| bounded_subscriptions.acquire()) {"),
 ("C06", "unsubscribe-key-conn-zero", "core/src/server/rpc_module.rs", "let key = SubscriptionKey { conn_id, sub_id: sub_id.into_owned() };", "let key = SubscriptionKey { conn_id: ConnectionId(0), sub_id: sub_id.into_owned() };"),
 ("C07", "build-crosses-fields", "server/src/server.rs", "			max_request_body_size: self.max_request_body_size,\n			max_response_body_size: self.max_response_body_size,", "			max_request_body_size: self.max_response_body_size,\n			max_response_body_size: self.max_request_body_size,"),
 ("C07", "oversize-arm-breaks", "server/src/transport/ws.rs", "							break Ok(Shutdown::ConnectionClosed);\n						}\n\n						continue;", "							break Ok(Shutdown::ConnectionClosed);\n						}\n\n						break Ok(Shutdown::ConnectionClosed);"),
 ("C07", "limit-plus-one", "server/src/server.rs", "ws_builder.set_max_message_size(this.server_cfg.max_request_body_size as usize);", "ws_builder.set_max_message_size(this.server_cfg.max_request_body_size as usize + 1);"),
 ("C08", "bounded-writer-strict", "core/src/server/method_response.rs", "if self.max_len >= len {", "if self.max_len > len {"),
 ("C08", "append-plus-one-dropped", "core/src/server/method_response.rs", "let len = response.json.get().len() + self.result.len() + 1;", "let len = response.json.get().len() + self.result.len();"),
 ("C08", "callbacks-unbounded", "server/src/middleware/rpc.rs", "let rp = (callback)(id, params, max_response_body_size, extensions);", "let rp = (callback)(id, params, usize::MAX, extensions);"),
 ("C09", "checked-sub-to-minus", "core/src/client/async_client/helpers.rs", "id.checked_sub(start_idx).and_then(|p| p.try_into().ok()).and_then(|p: usize| responses.get_mut(p));", "Some(id - start_idx).and_then(|p| p.try_into().ok()).and_then(|p: usize| responses.get_mut(p));"),
 ("C09", "read-task-error-skips-report", "core/src/client/async_client/mod.rs", "						tracing::debug!(target: LOG_TARGET, \"Failed to read message: {e}\");\n						break Err(e);", "						tracing::debug!(target: LOG_TARGET, \"Failed to read message: {e}\");\n						return;"),
 ("C10", "drop-service-removed", "server/src/transport/ws.rs", "	drop(rpc_service);\n	graceful_shutdown(", "	graceful_shutdown("),
 ("C10", "http-graceful-shutdown-removed", "server/src/server.rs", "				conn.as_mut().graceful_shutdown();\n				conn.await", "				conn.await"),
 ("C10", "conn-dropped-before-shutdown", "server/src/transport/ws.rs", "	drop(rpc_service);\n	graceful_shutdown(result, pending_calls_completed, ws_stream, conn_tx, send_task_handle).await;\n\n	drop(conn);", "	drop(rpc_service);\n	drop(conn);\n	graceful_shutdown(result, pending_calls_completed, ws_stream, conn_tx, send_task_handle).await;\n"),
 ("C11", "conn-dropped-before-work", "server/src/server.rs", "				let rp = http::call_with_service(request, batch_config, max_request_size, rpc_service).await;\n				// NOTE: The `conn guard` must be held until the response is processed\n				// to respect the `max_connections` limit.\n				drop(conn);", "				drop(conn);\n				let rp = http::call_with_service(request, batch_config, max_request_size, rpc_service).await;"),
 ("C11", "semaphore-plus-one", "server/src/future.rs", "Self { inner: Arc::new(Semaphore::new(limit)), max: limit }", "Self { inner: Arc::new(Semaphore::new(limit + 1)), max: limit }"),
 ("C12", "range-unchecked-add", "core/src/client/mod.rs", "	let id_end = id_start\n		.checked_add(len)\n		.ok_or_else(|| Error::Custom(\"BatchID range wrapped; restart the client or try again later\".to_string()))?;", "	let id_end = id_start + len;"),
 ("C13", "alias-without-verify", "core/src/server/rpc_module.rs", "		self.methods.verify_method_name(alias)?;\n\n		let callback = match", "		let callback = match"),
 ("C14", "default-port-matches-anything", "server/src/middleware/http/host_filter.rs", "(Port::Default, Port::Default) => true,", "(Port::Default, _) => true,"),
 ("C14", "differing-authorities-take-host", "server/src/middleware/http/authority.rs", "				if a1 == a2 {\n					Some(a1)\n				} else {\n					None\n				}", "				Some(a1)"),
 ("C15", "duplicate-guard-removed", "types/src/response.rs", "							if error.is_some() {\n								return Err(serde::de::Error::duplicate_field(\"error\"));\n							}\n", ""),
 ("C15", "jsonrpc-not-emitted", "types/src/response.rs", "		if let Some(field) = &self.jsonrpc {\n			s.serialize_field(\"jsonrpc\", field)?;\n		}\n", "		let _ = &self.jsonrpc;\n"),
 ("C16", "poison-removed", "types/src/params.rs", "			Err(e) => {\n				self.0 = \"\";\n				Some(Err(invalid_params(e)))", "			Err(e) => {\n				Some(Err(invalid_params(e)))"),
 ("C16", "optional-exhaustion-is-error", "types/src/params.rs", "			Some(result) => result,\n			None => Ok(None),", "			Some(result) => result,\n			None => Err(invalid_params(\"No more params\")),"),
 ("C19", "gate-accepts-put", "server/src/transport/http.rs", "Method::POST if content_type_is_json(&request) => {", "Method::POST | Method::PUT if content_type_is_json(&request) => {"),
 ("C19", "content-type-case-sensitive", "server/src/transport/http.rs", "|| content.eq_ignore_ascii_case(\"application/json-rpc\")\n", "|| content == \"application/json-rpc\"\n"),
 ("C20", "end-token-always-pushed", "core/src/params.rs", "			if self.bytes[idx] == b',' {\n				self.bytes[idx] = self.end as u8;\n			} else {\n				self.bytes.push(self.end as u8);\n			}", "			let _ = idx;\n			self.bytes.push(self.end as u8);"),
 ("C20", "tuple-arity-16-removed", "core/src/traits.rs", "	16 => (0 T0 1 T1 2 T2 3 T3 4 T4 5 T5 6 T6 7 T7 8 T8 9 T9 10 T10 11 T11 12 T12 13 T13 14 T14 15 T15)\n", ""),
 ("C18", "remove-subscription-keeps-reverse-index", "core/src/client/async_client/manager.rs", "				let (_req_id, kind) = request.remove_entry();\n				let (sub_id, _req_id) = subscription.remove_entry();\n				if let Kind::Subscription((unsub_req_id, send_back, unsub)) = kind {\n					// No unsubscribe", "				let (_req_id, kind) = request.remove_entry();\n				let sub_id = subscription.key().clone();\n				if let Kind::Subscription((unsub_req_id, send_back, unsub)) = kind {\n					// No unsubscribe"),
 ("C17", "client-reverses-array-params", "proc-macros/src/render_client.rs", None, None),
]


def sh(cmd, cwd=None):
    return subprocess.run(cmd, shell=True, cwd=cwd, capture_output=True, text=True)


def main():
    only = sys.argv[1:]
    head = sh("git rev-parse HEAD", "/repo").stdout.strip()
    if not os.path.isdir(WT):
        sh("git worktree add -q --detach %s HEAD" % WT, "/repo")
    sh("git checkout -q -- . ; git checkout -q --detach %s" % head, WT)
    env = "CARGO_INCREMENTAL=0 CARGO_NET_OFFLINE=true CARGO_PROFILE_DEV_DEBUG=0"
    for pid, name, f, old, new in M:
        if old is None or (only and pid not in only and name not in only):
            continue
        path = os.path.join(WT, f)
        s = open(path).read()
        if s.count(old) != 1:
            print("%s-%s: SKIP anchor text found %d times" % (pid, name, s.count(old)))
            continue
        open(path, "w").write(s.replace(old, new))
        r = sh("%s cargo check --offline --workspace --all-features --lib 2>&1 | tail -3" % env, WT)
        ok = "Finished" in r.stdout
        if ok:
            d = sh("git diff", WT).stdout
            open(os.path.join(VERIF, "mutants", "%s-%s.patch" % (pid, name)), "w").write(d)
            print("%s-%s: ok" % (pid, name))
        else:
            print("%s-%s: DOES NOT COMPILE: %s" % (pid, name, r.stdout[-300:]))
        sh("git checkout -q -- .", WT)


main()

#!/bin/bash
# Confirms a seeded change in the agent's scratch worktree, updated to /repo's HEAD:
#   (1) demo passes on the clean tree, (2) demo fails with the patch, (3) the existing suite passes with the patch.
# usage: tools/confirm_seed.sh <PID> <k> [<test-name>] [<package>]
PID=$1; K=$2
SRC=${SEED_SRC:-/tmp/seed-out}/$PID/change$K
WT=${SEED_WT:-/tmp/wt}-$PID
NAME=${3:-$(grep -ho -- "--test [A-Za-z0-9_]*" $SRC/README.md $SRC/demo.rs 2>/dev/null | head -1 | awk '{print $2}')}
PKG=${4:-jsonrpsee-integration-tests}
DDIR=${5:-tests/tests}
OUT=$SRC/confirm.log
export CARGO_INCREMENTAL=0 CARGO_PROFILE_DEV_DEBUG=0 CARGO_PROFILE_TEST_DEBUG=0 CARGO_NET_OFFLINE=true
{
echo "== confirm $PID change$K test=$NAME pkg=$PKG at $(git -C /repo rev-parse --short HEAD)"
cd $WT || exit 2
git checkout -q -- . ; git checkout -q --detach $(git -C /repo rev-parse HEAD) || exit 2
# remove other demos so that they do not interfere
mkdir -p ${SEED_SRC:-/tmp/seed-out}/$PID/parked; for f in tests/tests/* types/tests/* core/tests/* server/tests/*; do [ -e "$f" ] || continue; case "$(git ls-files --error-unmatch "$f" 2>/dev/null)" in "") mv "$f" ${SEED_SRC:-/tmp/seed-out}/$PID/parked/ ;; esac; done
mkdir -p $DDIR; DEST=$DDIR/$NAME.rs
cp $SRC/demo.rs $DEST
echo "-- (1) demo on clean tree"
cargo test --offline -p $PKG --test $NAME 2>&1 | tail -15; R1=${PIPESTATUS[0]}
echo "rc=$R1"
git apply $SRC/patch.diff || { echo "PATCH DOES NOT APPLY to HEAD"; echo "RESULT $PID change$K apply=FAIL"; rm -f $DEST; exit 3; }
echo "-- (2) demo with patch"
cargo test --offline -p $PKG --test $NAME 2>&1 | tail -25; R2=${PIPESTATUS[0]}
echo "rc=$R2"
rm -f $DEST
echo "-- (3) existing suite with patch"
cargo nextest run --workspace --no-fail-fast --offline --test-threads 8 2>&1 | grep -E "^\s+(FAIL|SIGSEGV|TIMEOUT)|Summary|error(\[|:)" | sort | uniq | head -30
git checkout -q -- .
echo "RESULT $PID change$K clean_rc=$R1 patched_rc=$R2"
} > $OUT 2>&1
tail -1 $OUT

#!/usr/bin/env python3
"""Regenerates jrsa/fn_fingerprints.json from the facts of /repo's *pinned, unmodified* tree: for every function of the
library crates its signature fingerprint, the functions it calls and the compilations it was seen in. The table lets the
fact loader recognise a function that was merely renamed or moved (jrsa/facts.py: renamed_functions). Run on a clean tree."""
import json
import os
import subprocess
import sys

sys.path.insert(0, os.path.join(os.path.dirname(os.path.abspath(__file__)), ".."))
from jrsa import extract, facts  # noqa: E402


def main():
    st = subprocess.run("git status --porcelain --untracked-files=no", shell=True, cwd=extract.REPO, capture_output=True, text=True).stdout.strip()
    assert st == "", "the tree must be clean"
    table = {}
    adts = {}
    for cfg in ("libs-all", "facade-full", "pmcore", "repo-programs", "corpus"):
        fact_dir, _ = extract.ensure_facts(cfg)
        raws = []
        for f in sorted(os.listdir(fact_dir)):
            if f.endswith(".json"):
                with open(os.path.join(fact_dir, f)) as fh:
                    raws.append(json.load(fh))
        callees = facts.fn_callees(raws)
        for d in raws:
            for a in d["adts"]:
                if not facts._adt_candidate(a, d["crate"]):
                    continue
                e = adts.setdefault(a["path"], {"crate": d["crate"], "shape": facts.adt_shape(a), "fields": [[f["n"] for f in v["fields"]] for v in a["variants"]], "variants": [v["n"] for v in a["variants"]], "names": sorted({v["n"] for v in a["variants"]} | {f["n"] for v in a["variants"] for f in v["fields"]}), "cfgs": []})
                if cfg not in e["cfgs"]:
                    e["cfgs"].append(cfg)
        for d in raws:
            for b in d["bodies"]:
                if not facts._fp_candidate(b, d["crate"]):
                    continue
                e = table.setdefault(b["path"], {"crate": d["crate"], "fp": facts.fn_fingerprint(b), "callees": sorted(callees.get(b["path"], ())), "cfgs": []})
                if cfg not in e["cfgs"]:
                    e["cfgs"].append(cfg)
    with open(facts.FP_FILE, "w") as fh:
        json.dump(table, fh, indent=0, sort_keys=True)
    print("fn_fingerprints: %d functions" % len(table))
    with open(facts.ADT_FP_FILE, "w") as fh:
        json.dump(adts, fh, indent=0, sort_keys=True)
    print("adt_fingerprints: %d types" % len(adts))


if __name__ == "__main__":
    main()

#!/usr/bin/env python3
"""Imports confirmed seeded changes from /tmp/seed-out into /verif/seeded/<PID>-<k>/ and records which checks catch them.
Applies each patch to /repo's working tree (must be clean), runs the checks, reverts."""
import json, os, re, shutil, subprocess, sys

VERIF = os.path.dirname(os.path.dirname(os.path.abspath(__file__)))
SRC = os.environ.get("SEED_SRC", "/tmp/seed-out")
OFFSET = int(os.environ.get("SEED_ID_OFFSET", "0"))
only = sys.argv[1:]


def sh(cmd, cwd=None):
    env = dict(os.environ, JRSA_EVIDENCE_DIR="/var/tmp/jrsa-scratch-evidence")
    return subprocess.run(cmd, shell=True, cwd=cwd, capture_output=True, text=True, env=env)


def detect(patch, pids):
    assert sh("git status --porcelain --untracked-files=no", "/repo").stdout.strip() == "", "/repo not clean"
    r = sh("git apply %s" % patch, "/repo")
    if r.returncode != 0:
        return None, "patch does not apply: " + r.stderr[-300:]
    res = []
    try:
        for pid in pids:
            o = sh("./check %s --tier quick" % pid, VERIF)
            viol = re.findall(r"^VIOLATION property=\S+ replay=.*/%s-(.*)\.json$" % pid, o.stdout, re.M)
            msgs = [l for l in o.stdout.splitlines() if re.match(r"^\S+:\d+\s+C\d\d\.|^-\s+C\d\d\.", l)]
            if viol:
                res.append({"check": pid, "exit": o.returncode, "violations": viol[:8], "messages": [m[:400] for m in msgs[:4]]})
    finally:
        sh("git checkout -- .", "/repo")
    return res, None


def needs_text(readme):
    paras = re.split(r"\n\s*\n", readme)
    hits = [p.strip() for p in paras if re.search(r"(?i)need|trigger|manifest", p)]
    return " ".join(hits[:2])[:1200]


props = {json.loads(l)["id"]: json.loads(l) for l in open(os.path.join(VERIF, "properties.jsonl"))}
head = sh("git rev-parse --short HEAD", "/repo").stdout.strip()
summary = []
for pid in sorted(os.listdir(SRC)):
    if not re.fullmatch(r"C\d\d", pid):
        continue
    for ch in sorted(os.listdir(os.path.join(SRC, pid))):
        m = re.fullmatch(r"change(\d)", ch)
        if not m:
            continue
        sid = "%s-%d" % (pid, int(m.group(1)) + OFFSET)
        if only and sid not in only and pid not in only:
            continue
        d = os.path.join(SRC, pid, ch)
        log = os.path.join(d, "confirm.log")
        if not os.path.exists(log):
            summary.append((sid, "no confirm.log"))
            continue
        txt = open(log).read()
        res = re.search(r"RESULT \S+ \S+ clean_rc=(\d+) patched_rc=(\d+)", txt)
        suite = re.search(r"Summary \[.*?\] (\d+) tests run: (\d+) passed.*?(\d+) failed", txt)
        fails = sorted(set(re.findall(r"^\s+FAIL \[.*?\] \(.*?\) (\S+ \S+)", txt, re.M)))
        confirmed = bool(res) and res.group(1) == "0" and res.group(2) != "0" and bool(suite) and all(re.search(r"https_works|wss_works", f) for f in fails)
        if not confirmed:
            summary.append((sid, "NOT CONFIRMED: %s suite=%s fails=%s" % (res.groups() if res else None, suite.groups() if suite else None, fails)))
            continue
        extra = {"C02-2": ["C08"], "C01-1": ["C19"], "C18-2": ["C05"], "C03-1": ["C12"],
                 "C12-3": ["C03"], "C18-3": ["C05", "C03"], "C04-4": ["C10"], "C10-4": ["C04"], "C19-4": ["C07"], "C09-3": ["C05"], "C03-4": ["C12"],
                 "C01-6": ["C16"], "C02-5": ["C08"], "C03-5": ["C12"], "C09-5": ["C12"], "C15-6": ["C05"], "C12-5": ["C03"], "C10-6": ["C06"], "C05-6": ["C15"], "C20-6": ["C17"], "C17-6": ["C13", "C01"], "C16-6": ["C17"], "C19-6": ["C07"],
                 "C01-7": ["C07"], "C10-7": ["C04"], "C13-8": ["C17"], "C12-8": ["C15"], "C17-7": ["C15", "C05"], "C17-8": ["C04"], "C03-7": ["C05"], "C07-8": ["C15"]}.get(sid, [])
        det, err = detect(os.path.join(d, "patch.diff"), [pid] + extra)
        if err:
            summary.append((sid, err))
            continue
        out = os.path.join(VERIF, "seeded", sid)
        os.makedirs(out, exist_ok=True)
        for f in ("patch.diff", "demo.rs", "README.md"):
            if os.path.exists(os.path.join(d, f)):
                shutil.copyfile(os.path.join(d, f), os.path.join(out, f))
        if os.path.exists(os.path.join(d, "patch.orig.diff")):
            shutil.copyfile(os.path.join(d, "patch.orig.diff"), os.path.join(out, "patch.orig.diff"))
        readme = open(os.path.join(d, "README.md")).read() if os.path.exists(os.path.join(d, "README.md")) else ""
        test_name = re.search(r"== confirm \S+ \S+ test=(\S+) pkg=(\S+)", txt)
        meta = {
            "id": sid,
            "property": pid,
            "property_title": props[pid]["title"],
            "origin": "independent sub-agent given only the property text and a scratch worktree",
            "needs_to_manifest": needs_text(readme),
            "confirmed_by_me": {
                "at_repo_commit": re.search(r"== confirm .* at (\w+)", txt).group(1) if re.search(r"== confirm .* at (\w+)", txt) else head,
                "demo": {"test": test_name.group(1) if test_name else None, "package": test_name.group(2) if test_name else None, "passes_on_clean_tree": True, "fails_with_patch": True},
                "existing_suite_with_patch": {"run": int(suite.group(1)), "passed": int(suite.group(2)), "failed": int(suite.group(3)), "failed_tests": fails},
                "commands": ["tools/confirm_seed.sh %s %s  (round %d; demo on clean tree; git apply; demo; cargo nextest run --workspace --no-fail-fast --offline)" % (pid, m.group(1), 2 if OFFSET else 1)],
            },
            "detected_by": det,
            "detected": bool(det),
        }
        if os.path.exists(os.path.join(d, "patch.orig.diff")):
            meta["note"] = "patch.diff is a port of the agent's patch (patch.orig.diff) to the tree after a later fix commit; same change, same demo"
        json.dump(meta, open(os.path.join(out, "meta.json"), "w"), indent=1)
        summary.append((sid, "imported; detected_by=%s" % [(x["check"], x["violations"][:2]) for x in det]))
for s in summary:
    print(*s)

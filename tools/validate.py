#!/opt/veriftools/pyvenv/bin/python
import json, sys, glob, jsonschema
ok = True
ms = json.load(open('/root/.vp/MANIFEST.schema.json'))
try:
    m = json.load(open('/verif/MANIFEST.json')); jsonschema.validate(m, ms); print("MANIFEST ok: %d checks, %d n/a" % (len(m['checks']), len(m.get('not_applicable', []))))
except Exception as e:
    ok = False; print("MANIFEST invalid:", str(e)[:300])
es = json.load(open('/root/.vp/EVIDENCE.schema.json'))
for f in sorted(glob.glob('/verif/evidence/*.json')):
    try:
        jsonschema.validate(json.load(open(f)), es)
    except Exception as e:
        ok = False; print(f, "INVALID", str(e)[:200])
print("evidence files:", len(glob.glob('/verif/evidence/*.json')))
sys.exit(0 if ok else 1)
